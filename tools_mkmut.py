#!/usr/bin/env python3
"""Generate the harness author's own mutation patches (DESIGN.md section 8) in a scratch worktree,
confirm that the repository's own test suite still passes with each, and store them under
/verif/seeded/own-<name>/patch.diff. Usage: tools_mkmut.py [name ...]"""
import subprocess, sys, os, json
W='/tmp/own'
def sh(cmd, **kw):
    return subprocess.run(cmd, shell=True, cwd=W, capture_output=True, text=True, **kw)
MUTS = {
 'endidx-sinc': ('C03', 'src/asynchro_sinc.rs', [("            - (sinc_len as isize + 1)\n", "            - (sinc_len as isize - 1)\n")], 'SincFixedIn end-of-chunk margin two frames too small'),
 'endidx-fast': ('C03', 'src/asynchro_fast.rs', [("            - (POLYNOMIAL_LEN_I + 1)\n", "            - (POLYNOMIAL_LEN_I - 5)\n")], 'FastFixedIn end-of-chunk margin six frames too small (the margin has five frames of slack; the sixth makes the unchecked septic window read one cell past the buffer)'),
 'margin10': ('C04', 'src/asynchro_sinc.rs', [("(self.chunk_size as f64 * (0.5 * self.resample_ratio + 0.5 * self.target_ratio) + 10.0)\n            as usize", "(self.chunk_size as f64 * (0.5 * self.resample_ratio + 0.5 * self.target_ratio) + 1.0)\n            as usize")], 'SincFixedIn output_frames_next margin +10 -> +1'),
 'floor-lastindex': ('C07', 'src/asynchro_fast.rs', [("        self.last_index = idx - self.chunk_size as f64;\n        self.resample_ratio = self.target_ratio;\n        trace!(\n            \"Resampling channels {:?}, {} frames in, {} frames out\",", "        self.last_index = idx.floor() - self.chunk_size as f64;\n        self.resample_ratio = self.target_ratio;\n        trace!(\n            \"Resampling channels {:?}, {} frames in, {} frames out\",")], 'FastFixedIn drops the fractional position at every chunk boundary'),
 'fo-copywithin': ('C05', 'src/asynchro_sinc.rs', [("            buf.copy_within(\n                self.current_buffer_fill..self.current_buffer_fill + 2 * sinc_len,\n                0,\n            );\n        }\n        self.current_buffer_fill = self.needed_input_size;", "            buf.copy_within(\n                self.needed_input_size..self.needed_input_size + 2 * sinc_len,\n                0,\n            );\n        }\n        self.current_buffer_fill = self.needed_input_size;")], 'SincFixedOut keeps history from needed_input_size instead of current_buffer_fill'),
 'noramp-late': ('C06', 'src/asynchro_fast.rs', [("impl<T> FastFixedOut<T>", "impl<T> FastFixedOut<T>")], ''),
 'reset-target': ('C10', 'src/asynchro_fast.rs', [("        self.resample_ratio = self.resample_ratio_original;\n        self.target_ratio = self.resample_ratio_original;\n    }\n}\n\nimpl<T> FastFixedOut<T>", "        self.resample_ratio = self.resample_ratio_original;\n    }\n}\n\nimpl<T> FastFixedOut<T>")], 'FastFixedIn::reset forgets target_ratio (a pending ramp survives the reset)'),
 'reset-saved': ('C10', 'src/synchro.rs', [("        self.channel_mask.iter_mut().for_each(|val| *val = true);\n        self.saved_frames = 0;\n    }\n}\n\n#[cfg(test)]", "        self.channel_mask.iter_mut().for_each(|val| *val = true);\n    }\n}\n\n#[cfg(test)]")], 'FftFixedIn::reset forgets saved_frames'),
 'fft-alloc': ('C09', 'src/synchro.rs', [("        self.ifft\n            .process_with_scratch(\n                &mut self.output_f,\n                &mut self.output_buf,\n                &mut self.scratch_inv,\n            )\n            .unwrap();", "        self.ifft\n            .process(&mut self.output_f, &mut self.output_buf)\n            .unwrap();")], 'inverse FFT through the allocating process() instead of process_with_scratch'),
 'shared-overlap': ('C11', 'src/synchro.rs', [("                    &mut wave_out[channel].as_mut()[..self.chunk_size_out],\n                    &mut self.overlaps[channel],", "                    &mut wave_out[channel].as_mut()[..self.chunk_size_out],\n                    &mut self.overlaps[0],")], 'FftFixedInOut uses the overlap buffer of channel 0 for every channel'),
 'sinc-reversed': ('C01', 'src/sinc.rs', [("            sincs[factor - n - 1][p] = y[factor * p + n] / sum;", "            sincs[n][p] = y[factor * p + n] / sum;")], 'sub-filter branches stored in reversed order'),
 'cutoff-noscale': ('C02', 'src/asynchro_sinc.rs', [("        f_cutoff * resample_ratio as f32\n", "        f_cutoff\n")], 'anti-aliasing cutoff not scaled by the ratio when downsampling'),
 'septic-coeff': ('C08', 'src/asynchro_fast.rs', [("t!(1715.0) * d", "t!(1717.0) * d")], 'one septic polynomial coefficient wrong'),
 'avx-lastvec': ('C15', 'src/sinc_interpolator/sinc_interpolator_avx.rs', [("        for _ in 0..wave_cut.len() / 8 {", "        for _ in 0..(wave_cut.len() / 8).max(2) - 1 {")], 'AVX f64 kernel drops the last 8 taps (when there are at least 16)'),
 'xo-delay': ('C14', 'src/synchro.rs', [("    fn output_delay(&self) -> usize {\n        self.fft_size_out / 2\n    }\n\n    /// Update the resample ratio. This is not supported by this resampler and\n    /// always returns [ResampleError::SyncNotAdjustable].\n    fn set_resample_ratio(&mut self, _new_ratio: f64, _ramp: bool) -> ResampleResult<()> {\n        Err(ResampleError::SyncNotAdjustable)\n    }\n\n    /// Update the resample ratio relative to the original one. This is not\n    /// supported by this resampler and always returns [ResampleError::SyncNotAdjustable].\n    fn set_resample_ratio_relative(&mut self, _rel_ratio: f64, _ramp: bool) -> ResampleResult<()> {\n        Err(ResampleError::SyncNotAdjustable)\n    }\n\n    fn reset(&mut self) {\n        self.overlaps\n            .iter_mut()\n            .for_each(|ch| ch.iter_mut().for_each(|s| *s = T::zero()));\n        self.output_buffers", "    fn output_delay(&self) -> usize {\n        self.fft_size_out\n    }\n\n    /// Update the resample ratio. This is not supported by this resampler and\n    /// always returns [ResampleError::SyncNotAdjustable].\n    fn set_resample_ratio(&mut self, _new_ratio: f64, _ramp: bool) -> ResampleResult<()> {\n        Err(ResampleError::SyncNotAdjustable)\n    }\n\n    /// Update the resample ratio relative to the original one. This is not\n    /// supported by this resampler and always returns [ResampleError::SyncNotAdjustable].\n    fn set_resample_ratio_relative(&mut self, _rel_ratio: f64, _ramp: bool) -> ResampleResult<()> {\n        Err(ResampleError::SyncNotAdjustable)\n    }\n\n    fn reset(&mut self) {\n        self.overlaps\n            .iter_mut()\n            .for_each(|ch| ch.iter_mut().for_each(|s| *s = T::zero()));\n        self.output_buffers")], 'FftFixedOut::output_delay reports a whole block instead of half'),
 'validate-out': ('C13', 'src/lib.rs', [("        if actual_len < min_output_len {", "        if actual_len + 1 < min_output_len {")], 'output buffers one frame too short are accepted'),
 'partial-pad': ('C16', 'src/lib.rs', [("                if frames_in > 0 {\n                    ch_padded[..frames_in].copy_from_slice(&ch_input.as_ref()[..frames_in]);", "                if frames_in > 0 {\n                    ch_padded[..frames_in].copy_from_slice(&ch_input.as_ref()[..frames_in]);\n                    let last = ch_padded[frames_in - 1];\n                    ch_padded[frames_in..].iter_mut().for_each(|s| *s = last);")], 'process_partial_into_buffer pads with the last sample instead of zeros'),
 'rel-current': ('C12', 'src/asynchro_sinc.rs', [("        let new_ratio = self.resample_ratio_original * rel_ratio;\n        if (rel_ratio >= 1.0 / self.max_relative_ratio) && (rel_ratio <= self.max_relative_ratio) {\n            self.update_ratio(new_ratio, ramp);\n            Ok(())\n        } else {\n            Err(ResampleError::RatioOutOfBounds {\n                provided: new_ratio,\n                original: self.resample_ratio_original,\n                max_relative_ratio: self.max_relative_ratio,\n            })\n        }\n    }\n\n    fn reset(&mut self) {\n        self.buffer\n            .iter_mut()\n            .for_each(|ch| ch.iter_mut().for_each(|s| *s = T::zero()));\n        self.channel_mask", "        let new_ratio = self.resample_ratio * rel_ratio;\n        if (rel_ratio >= 1.0 / self.max_relative_ratio) && (rel_ratio <= self.max_relative_ratio) {\n            self.update_ratio(new_ratio, ramp);\n            Ok(())\n        } else {\n            Err(ResampleError::RatioOutOfBounds {\n                provided: new_ratio,\n                original: self.resample_ratio_original,\n                max_relative_ratio: self.max_relative_ratio,\n            })\n        }\n    }\n\n    fn reset(&mut self) {\n        self.buffer\n            .iter_mut()\n            .for_each(|ch| ch.iter_mut().for_each(|s| *s = T::zero()));\n        self.channel_mask")], 'SincFixedIn relative setter multiplies the current ratio instead of the original one'),
 'f32-control': ('C17', 'src/asynchro_fast.rs', [("        let needed_input_size =\n            (chunk_size as f64 / resample_ratio).ceil() as usize + POLYNOMIAL_LEN_U / 2;\n        let buffer_channel_length = ((max_resample_ratio_relative + 1.0) * needed_input_size as f64)", "        let needed_input_size = (T::coerce(chunk_size) / T::coerce(resample_ratio))\n            .to_f64()\n            .unwrap_or(0.0)\n            .ceil() as usize\n            + POLYNOMIAL_LEN_U / 2;\n        let buffer_channel_length = ((max_resample_ratio_relative + 1.0) * needed_input_size as f64)")], 'FastFixedOut computes its first input size in the sample type'),
 'endidx-sinc0': ('C03', 'src/asynchro_sinc.rs', [("            - (sinc_len as isize + 1)\n", "            - (sinc_len as isize)\n")], 'SincFixedIn end-of-chunk margin one frame too small'),
 'so-chunk-needed': ('C05', 'src/asynchro_sinc.rs', [("        self.chunk_size = chunksize;\n        self.update_needed_len();\n        Ok(())", "        self.chunk_size = chunksize;\n        Ok(())")], 'SincFixedOut::set_chunk_size does not update the needed input size'),
 'so-reset-chunk': ('C10', 'src/asynchro_sinc.rs', [("        self.last_index = -((self.interpolator.len() / 2) as f64);\n        self.chunk_size = self.max_chunk_size;\n        self.needed_input_size", "        self.last_index = -((self.interpolator.len() / 2) as f64);\n        self.needed_input_size")], 'SincFixedOut::reset does not restore the chunk size'),
 'xi-saved-2ch': ('C11', 'src/synchro.rs', [("        if self.saved_frames > frames_in_used {\n            for (chan, active) in self.channel_mask.iter().enumerate() {", "        if self.saved_frames > frames_in_used {\n            for (chan, active) in self.channel_mask.iter().enumerate().take(2) {")], 'FftFixedIn moves the saved frames of the first two channels only'),
 'window-swap': ('C02', 'src/windows.rs', [("        WindowFunction::BlackmanHarris | WindowFunction::BlackmanHarris2 => {\n            blackman_harris::<T>(npoints)\n        }\n        WindowFunction::Blackman | WindowFunction::Blackman2 => blackman::<T>(npoints),", "        WindowFunction::BlackmanHarris => blackman_harris::<T>(npoints),\n        WindowFunction::Blackman | WindowFunction::Blackman2 | WindowFunction::BlackmanHarris2 => {\n            blackman::<T>(npoints)\n        }")], 'BlackmanHarris2 is built from the Blackman window'),
 'sse-subclamp': ('C15', 'src/sinc_interpolator/sinc_interpolator_sse.rs', [], ''),
 'unsafe-base': ('C03', 'src/asynchro_fast.rs', [("""                                let buf = self.buffer.get_unchecked(chan).get_unchecked(
                                    (start_idx + 2 * POLYNOMIAL_LEN_I) as usize
                                        ..(start_idx + 2 * POLYNOMIAL_LEN_I + 2) as usize,
                                );
                                *wave_out
                                    .get_unchecked_mut(chan)
                                    .as_mut()
                                    .get_unchecked_mut(frame) = interp_lin(frac_offset, buf);""", """                                let buf = self.buffer.get_unchecked(chan).get_unchecked(
                                    (start_idx + POLYNOMIAL_LEN_I) as usize
                                        ..(start_idx + POLYNOMIAL_LEN_I + 2) as usize,
                                );
                                *wave_out
                                    .get_unchecked_mut(chan)
                                    .as_mut()
                                    .get_unchecked_mut(frame) = interp_lin(frac_offset, buf);""")], 'FastFixedOut Linear: the unchecked window is taken 8 cells too early INSIDE the unsafe block (the guarded monitor in front of it still sees the right expression): negative index cast to usize, undefined behaviour'),
 'noramp-ramps': ('C06', 'src/asynchro_fast.rs', [("""    fn update_ratio(&mut self, new_ratio: f64, ramp: bool) {
        if !ramp {
            self.resample_ratio = new_ratio;
        }
        self.target_ratio = new_ratio;
    }
}

impl<T> Resampler<T> for FastFixedIn<T>""", """    fn update_ratio(&mut self, new_ratio: f64, _ramp: bool) {
        self.target_ratio = new_ratio;
    }
}

impl<T> Resampler<T> for FastFixedIn<T>""")], 'FastFixedIn: a non-ramped ratio change is ramped over the next chunk instead of taking effect at once'),
 'revert-KF-B': ('C03', 'src/asynchro_fast.rs', [("""        self.needed_input_size =
            (self.last_index + advance + POLYNOMIAL_LEN_U as f64).ceil() as usize;
    }""", """        self.needed_input_size = (self.last_index + advance).ceil() as usize + POLYNOMIAL_LEN_U;
    }""")], 'KF-B returns: FastFixedOut casts a negative float to usize before adding the filter length'),
 'revert-KF-C': ('C03', 'src/asynchro_sinc.rs', [("""        let advance =
            0.5 * (t_ratio + t_ratio_end) * self.chunk_size as f64 + 0.5 * (t_ratio_end - t_ratio);
        self.needed_input_size =
            (self.last_index + advance + self.interpolator.len() as f64).ceil() as usize;""", """        let advance = self.chunk_size as f64 / (0.5 / t_ratio + 0.5 / t_ratio_end);
        self.needed_input_size =
            (self.last_index + advance + self.interpolator.len() as f64).ceil() as usize;""")], 'KF-C returns: SincFixedOut estimates the input need of a ramped chunk as chunk/mean(ratio)'),
 'revert-KF-F': ('C05', 'src/asynchro_sinc.rs', [("""            buf.copy_within(
                self.current_buffer_fill..self.current_buffer_fill + 2 * sinc_len,
                0,
            );
        }
        self.current_buffer_fill = self.chunk_size;""", """            buf.copy_within(self.chunk_size..self.chunk_size + 2 * sinc_len, 0);
        }
        self.current_buffer_fill = self.chunk_size;""")], 'KF-F returns: SincFixedIn shifts its history by the new chunk size after set_chunk_size'),
 'revert-KF-A': ('C03', 'src/asynchro_fast.rs', [("""            - t_ratio.max(t_ratio_end).ceil() as isize;""", """            - t_ratio_end.ceil() as isize;""")], 'KF-A returns: FastFixedIn reserves only ceil(1/target) frames at the end of a ramped chunk'),
 'static-scratch': ('C18', 'src/synchro.rs', [], 'FFT unit keeps its overlap in a process-wide static instead of per instance'),
}
def main():
    names = sys.argv[1:] or [n for n in MUTS if MUTS[n][2]]
    for name in names:
        prop, f, edits, what = MUTS[name]
        if not edits or not what: continue
        sh('git checkout -- . && git clean -fdq -e target -e Cargo.lock')
        p=os.path.join(W,f); s=open(p).read()
        ok=True
        for old,new in edits:
            if s.count(old)!=1:
                print(name,'EDIT DOES NOT APPLY (count %d)'%s.count(old)); ok=False; break
            s=s.replace(old,new)
        if not ok: continue
        open(p,'w').write(s)
        r=sh('CARGO_NET_OFFLINE=true cargo test --offline 2>&1 | grep -E "^test result|error(\\[|:)" | head -5')
        passed = r.stdout.count('test result: ok')>=2 and 'FAILED' not in r.stdout and 'error' not in r.stdout
        d=sh('git diff -- src').stdout
        out='/verif/seeded/%s'%(name if name.startswith('revert-') else 'own-'+name)
        if passed:
            os.makedirs(out,exist_ok=True)
            open(out+'/patch.diff','w').write(d)
            meta={'id':(name if name.startswith('revert-') else 'own-'+name),'property':prop,'what':what,'origin':'harness author (DESIGN.md section 8)','repo_tests_with_patch':'pass (cargo test --offline: '+' | '.join(r.stdout.strip().splitlines())+')'}
            json.dump(meta,open(out+'/meta.json','w'),indent=1)
        print(name, 'suite passes' if passed else 'SUITE NOTICES / build error: '+r.stdout.strip().replace('\n',' | '))
    sh('git checkout -- .')
main()
