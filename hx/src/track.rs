//! Tracker: the specification-side bookkeeping that accompanies a runner through a history
//! (documented ratio semantics, stream totals, evaluation instants), and the per-step
//! monitors of the control properties.

use crate::any::{scalar, scalar_f64, Getters};
use crate::cfg::{Cfg, Degree, Interp, Kernel, Kind};
use crate::ops::{Bad, Op};
use crate::run::{classify, Flt, Obs, Res, Runner, Signal, INDEX_BASE, SLACK};
use rubato::verif::State;

#[derive(Clone, Debug)]
pub struct Viol {
    pub prop: &'static str,
    pub sig: String,
    pub detail: String,
}

fn v(prop: &'static str, sig: impl Into<String>, detail: impl Into<String>) -> Viol {
    Viol {
        prop,
        sig: sig.into(),
        detail: detail.into(),
    }
}

/// Which monitors are active.
#[derive(Clone, Copy, Debug, Default)]
pub struct Props {
    pub c03: bool,
    pub c04: bool,
    pub c06: bool,
    pub c09: bool,
    pub c13: bool,
    pub c10: bool,
    pub c17: bool,
}

impl Props {
    pub fn only(id: &str) -> Props {
        let mut p = Props::default();
        match id {
            "C03" => p.c03 = true,
            "C04" => p.c04 = true,
            "C06" => p.c06 = true,
            "C09" => p.c09 = true,
            "C13" => p.c13 = true,
            "C10" => p.c10 = true,
            "C17" => p.c17 = true,
            _ => {}
        }
        p
    }
}

/// Specification-side state that follows a history.
#[derive(Clone, Debug)]
pub struct Tracker {
    /// ratio in force (documented semantics): current and target
    pub r_cur: f64,
    pub r_tgt: f64,
    /// the pair that was in force during the previous processing call
    pub prev_pair: Option<(f64, f64)>,
    /// last valid evaluation instant of the current stream segment and its ratio context
    pub last_tau: Option<f64>,
    /// number of processing calls since fresh / reset
    pub calls: usize,
    /// have valid (non pre-roll) instants been seen in this segment
    pub seen_valid: bool,
    /// instants are observable for this configuration
    pub instants: bool,
    pub nearest_slack: f64,
    /// chunk size according to accepted set_chunk_size calls
    pub chunk: usize,
    /// total frames in / out since construction (not reset by Z)
    pub tot_in: u64,
    pub tot_out: u64,
    /// smallest input/output_frames_max seen so far (a buffer allocated then must still suffice)
    pub min_in_max: usize,
    pub min_out_max: usize,
    /// channels that have been active in an accepted processing call since construction / the
    /// last reset (bit c = channel c): their sample storage holds audio. Part of the search key:
    /// what `reset()` or a rejected
    /// call leaves behind may depend on which channels hold audio and which did not take part
    /// in the last call, and a history that reaches the same control state with clean storage
    /// must not stand in for one that reaches it with audio in it.
    pub dirty: u32,
    /// the mask of the most recent processing call, accepted or rejected (all ones without a
    /// mask). The implementations keep a copy of it; on correct code that copy never influences
    /// anything that follows, so it is not part of the control fingerprint - which is exactly
    /// why it has to be part of the search key: a `reset()` or a later call that
    /// wrongly consults the stale copy is only seen from a state that was reached by a masked call.
    pub last_mask: u32,
}

impl Tracker {
    pub fn new(cfg: &Cfg, sig: Signal) -> Tracker {
        let instants = sig == Signal::Index
            && match cfg.kind {
                Kind::SI | Kind::SO => cfg.kernel == Kernel::Probe,
                Kind::FI | Kind::FO => cfg.degree == Degree::Linear,
                _ => false,
            };
        let nearest_slack = if cfg.kind.is_sinc() && cfg.interp == Interp::Nearest {
            1.0 / cfg.oversampling as f64
        } else {
            0.0
        };
        Tracker {
            r_cur: cfg.ratio,
            r_tgt: cfg.ratio,
            prev_pair: None,
            last_tau: None,
            calls: 0,
            seen_valid: false,
            instants,
            nearest_slack,
            chunk: cfg.chunk,
            tot_in: 0,
            tot_out: 0,
            min_in_max: usize::MAX,
            min_out_max: usize::MAX,
            dirty: 0,
            last_mask: u32::MAX,
        }
    }
}

pub struct Tracked<T: Flt> {
    pub run: Runner<T>,
    pub trk: Tracker,
    pub props: Props,
    /// state and getters right after construction (C10)
    pub initial: Option<(State, Getters)>,
}

/// Is the relative ratio x inside the documented closed interval [1/m, m]?
pub fn rel_in_range(x: f64, m: f64) -> bool {
    x.is_finite() && x > 0.0 && x >= 1.0 / m && x <= m
}

impl<T: Flt> Tracked<T> {
    pub fn new(cfg: &Cfg, sig: Signal, props: Props) -> Result<Tracked<T>, String> {
        let mut run = Runner::<T>::new(cfg, sig)?;
        let trk = Tracker::new(cfg, sig);
        run.keep_out = (props.c06 && trk.instants) || props.c17 || props.c13;
        let initial = if props.c10 {
            Some((run.state(), run.r.getters()))
        } else {
            None
        };
        Ok(Tracked {
            run,
            trk,
            props,
            initial,
        })
    }

    pub fn replay(&mut self, history: &[Op]) -> bool {
        for op in history {
            let (o, _) = self.step(*op, false);
            if matches!(o.res, Res::Panic(_)) {
                return false;
            }
        }
        true
    }

    /// Apply one op, update the tracker, and (if `check`) evaluate the active monitors.
    pub fn step(&mut self, op: Op, check: bool) -> (Obs, Vec<Viol>) {
        let cfg = self.run.cfg.clone();
        let st_before: Option<State> = if check && (self.props.c13) {
            Some(self.run.state())
        } else {
            None
        };
        let obs = self.run.apply(op);
        let mut viols = Vec::new();
        if check {
            if self.props.c03 {
                mon_c03(&cfg, &obs, &mut viols);
            }
            if self.props.c04 {
                mon_c04(&cfg, &obs, &mut viols);
                // buffers obtained from *_buffer_allocate at any earlier point must still suffice
                if obs.after.in_next > self.trk.min_in_max.min(obs.before.in_max) {
                    viols.push(Viol { prop: "C04", sig: "in_next>earlier-in_max".into(), detail: format!("after {}: input_frames_next {} exceeds input_frames_max reported earlier in this history ({})", op.text(), obs.after.in_next, self.trk.min_in_max.min(obs.before.in_max)) });
                }
                if obs.after.out_next > self.trk.min_out_max.min(obs.before.out_max) {
                    viols.push(Viol { prop: "C04", sig: "out_next>earlier-out_max".into(), detail: format!("after {}: output_frames_next {} exceeds output_frames_max reported earlier in this history ({}): a buffer from output_buffer_allocate() obtained then is now too small", op.text(), obs.after.out_next, self.trk.min_out_max.min(obs.before.out_max)) });
                }
            }
            if self.props.c09 {
                mon_c09(&cfg, &obs, &mut viols);
            }
            if self.props.c10 && op == Op::Z {
                if let Some((s0, g0)) = &self.initial {
                    mon_c10(&obs, s0, g0, &self.run.state(), &mut viols);
                }
            }
            if self.props.c13 {
                if let (Op::Bad(b), Some(sb)) = (op, st_before.as_ref()) {
                    let sa = if self.run.dead {
                        None
                    } else {
                        Some(self.run.state())
                    };
                    mon_c13(&cfg, b, &obs, sb, sa.as_ref(), &mut viols);
                }
            }
        }
        // ---- C06 instants (needs the tracker's pre-call ratio pair)
        if self.trk.instants && op.is_processing() {
            self.instants(&cfg, &obs, check && self.props.c06, &mut viols);
        } else if check && self.props.c06 && op.is_processing() {
            stale_reads(&cfg, &obs, &mut viols);
        }
        self.trk.min_in_max = self.trk.min_in_max.min(obs.before.in_max).min(obs.after.in_max);
        self.trk.min_out_max = self.trk.min_out_max.min(obs.before.out_max).min(obs.after.out_max);
        // ---- tracker update (documented semantics)
        if op.is_processing() || matches!(op, Op::Bad(_)) {
            self.trk.last_mask = match op {
                Op::PM(m, _) | Op::PPM(m, _, _) => m,
                Op::Bad(crate::ops::Bad::MaskedInShort(m, _)) | Op::Bad(crate::ops::Bad::MaskedOutShort(m, _)) => m,
                _ => u32::MAX,
            };
        }
        if op == Op::Z {
            self.trk.last_mask = u32::MAX;
        }
        match (op, &obs.res) {
            (Op::R(x, ramp), Res::Unit) => {
                let nv = cfg.ratio * x;
                self.trk.r_tgt = nv;
                if !ramp {
                    self.trk.r_cur = nv;
                }
            }
            (Op::Ra(x, ramp), Res::Unit) => {
                self.trk.r_tgt = x;
                if !ramp {
                    self.trk.r_cur = x;
                }
            }
            (Op::C(k), Res::Unit) => self.trk.chunk = k,
            (Op::Z, Res::Unit) => {
                self.trk.r_cur = cfg.ratio;
                self.trk.r_tgt = cfg.ratio;
                self.trk.prev_pair = None;
                self.trk.last_tau = None;
                self.trk.calls = 0;
                self.trk.seen_valid = false;
                self.trk.chunk = cfg.chunk;
                self.trk.dirty = 0;
            }
            (_, Res::Ok(i, o)) if op.is_processing() => {
                for (c, a) in obs.active.iter().enumerate() {
                    if *a {
                        self.trk.dirty |= 1 << c;
                    }
                }
                self.trk.prev_pair = Some((self.trk.r_cur, self.trk.r_tgt));
                self.trk.r_cur = self.trk.r_tgt;
                self.trk.calls += 1;
                self.trk.tot_in += *i as u64;
                self.trk.tot_out += *o as u64;
            }
            _ => {}
        }
        // C06: an accepted processing call completes the pending ramp, whatever its mask: the
        // ratio in use afterwards (hook snapshot) is the requested one, bit for bit
        if check && self.props.c06 && op.is_processing() && matches!(obs.res, Res::Ok(_, _)) && cfg.kind.is_async() && !self.run.dead {
            if let Some(v) = self.run.state().scalars.iter().find(|(k, _)| *k == "resample_ratio").map(|(_, v)| *v) {
                if v != self.trk.r_cur.to_bits() {
                    viols.push(Viol {
                        prop: "C06",
                        sig: "ratio-in-use-after-call-is-not-the-target".into(),
                        detail: format!("after {} the resampler runs at {:?}, the ratio requested last is {:?}", op.text(), f64::from_bits(v), self.trk.r_cur),
                    });
                }
            }
        }
        (obs, viols)
    }

    fn instants(&mut self, cfg: &Cfg, obs: &Obs, check: bool, viols: &mut Vec<Viol>) {
        let (i_in, n_out) = match obs.res {
            Res::Ok(i, o) => (i, o),
            _ => return,
        };
        let _ = i_in;
        if check {
            stale_reads(cfg, obs, viols);
        }
        // partial calls pad with zeros: the instants read off the padding are not instants
        if matches!(obs.op, Op::PP(_) | Op::WP(_) | Op::PPM(_, _, _)) {
            self.trk.last_tau = None;
            self.trk.seen_valid = false;
            self.trk.instants = false;
            return;
        }
        // masked calls with channel 0 inactive produce nothing on channel 0
        if !obs.active.first().copied().unwrap_or(true) {
            self.trk.instants = false;
            return;
        }
        let y = match obs.out.first() {
            Some(y) => y,
            None => return,
        };
        let (r0, r1) = (self.trk.r_cur, self.trk.r_tgt);
        let (t0, t1) = (1.0 / r0, 1.0 / r1);
        let lo = t0.min(t1);
        let hi = t0.max(t1);
        let ramped = r0 != r1;
        let after_ramp = matches!(self.trk.prev_pair, Some((a, b)) if a != b);
        let slack = self.trk.nearest_slack;
        let eps = |d: f64| 1e-9 * d.abs().max(1.0) + 2.0 * slack;
        let mut prev_delta: Option<f64> = None;
        let strict = slack == 0.0;
        // the number of frames the ramp is spread over: the frames produced, or fewer when the
        // fixed-input types estimate fewer (input frames x mean ratio; they produce the frames
        // the carried position allows, which can be more)
        let ramp_frames = if matches!(cfg.kind, Kind::SI | Kind::FI) {
            (n_out as f64).min(obs.before.in_next as f64 * 0.5 * (r0 + r1))
        } else {
            n_out as f64
        };
        for (j, &yj) in y.iter().take(n_out).enumerate() {
            let valid = if cfg.kind.is_sinc() {
                !yj.is_nan()
            } else {
                yj >= INDEX_BASE
            };
            if !valid {
                if self.trk.seen_valid && check {
                    viols.push(v(
                        "C06",
                        "instant-invalid-midstream",
                        format!(
                            "frame {} of call {} reads the zero pre-roll (value {:?}) after valid instants were produced",
                            j, self.trk.calls, yj
                        ),
                    ));
                }
                self.trk.last_tau = None;
                continue;
            }
            self.trk.seen_valid = true;
            let tau = yj - INDEX_BASE;
            if tau.abs() > 1e9 && tau.abs() < 1e21 && obs.probe.window_above_valid > 0 {
                // A poisoned point entered with weight |tau| / POISON < 1e-9: the read position
                // reached an integer only up to floating-point rounding of the accumulated steps.
                // The stale cell contributes below rounding level: not a violation, but the
                // instant is unusable.
                self.trk.last_tau = None;
                continue;
            }
            if tau.abs() >= 1e21 {
                if check {
                    viols.push(v(
                        "C06",
                        "stale-read-above-supplied",
                        format!(
                            "call {} frame {}: a filter window with non-zero weight reaches beyond the {} frames supplied by the call",
                            self.trk.calls, j, obs.before.in_next
                        ),
                    ));
                }
                self.trk.last_tau = None;
                continue;
            }
            if let Some(prev) = self.trk.last_tau {
                let d = tau - prev;
                if check {
                    if strict && !(d > 0.0) {
                        viols.push(v(
                            "C06",
                            "instant-not-increasing",
                            format!(
                                "call {} frame {}: instant {:?} after {:?} (delta {:?}), ratios {:?}->{:?}",
                                self.trk.calls, j, tau, prev, d, r0, r1
                            ),
                        ));
                    } else if d < lo - eps(d) || d > hi + eps(d) {
                        viols.push(v(
                            "C06",
                            if ramped { "spacing-outside-ramp-range" } else { "spacing-not-1/ratio" },
                            format!(
                                "call {} frame {}: spacing {:?} not within [{:?},{:?}] (ratios {:?}->{:?}, first frame of call: {})",
                                self.trk.calls, j, d, lo, hi, r0, r1, j == 0
                            ),
                        ));
                    } else if ramped && strict && prev_delta.is_none() && ramp_frames >= 3.0 && (d - t0).abs() > (t1 - t0).abs() * (j as f64 + 2.0) / ramp_frames + eps(d) {
                        // the ramp starts at the old step: the spacing before frame j of the call
                        // is j+1 increments (of 1/n of the way each) from 1/old
                        viols.push(v(
                            "C06",
                            "ramp-does-not-start-at-old-step",
                            format!(
                                "call {} frame {}: spacing {:?}, the ramp {:?}->{:?} over {} frames has to be within {} increments of {:?} there",
                                self.trk.calls, j, d, t0, t1, ramp_frames, j + 2, t0
                            ),
                        ));
                    } else if ramped && strict {
                        if let Some(pd) = prev_delta {
                            // monotone from old towards new
                            let dir = t1 - t0;
                            if (d - pd) * dir < -1e-9 * hi.max(1.0) {
                                viols.push(v(
                                    "C06",
                                    "ramp-not-monotone",
                                    format!(
                                        "call {} frame {}: spacing {:?} after {:?} while ramping {:?}->{:?}",
                                        self.trk.calls, j, d, pd, t0, t1
                                    ),
                                ));
                            }
                        }
                    }
                    let _ = after_ramp;
                }
                prev_delta = Some(d);
            }
            self.trk.last_tau = Some(tau);
        }
    }
}

/// C06 (v): every read must come from data supplied for that position.
fn stale_reads(cfg: &Cfg, obs: &Obs, viols: &mut Vec<Viol>) {
    if !matches!(obs.res, Res::Ok(_, _)) {
        return;
    }
    match cfg.kind {
        Kind::FI | Kind::FO => {
            if obs.win.count > 0 {
                let limit = 16 + obs.before.in_next as isize; // cells [0, limit) are history + this call's frames
                if obs.win.max_read >= limit {
                    viols.push(v(
                        "C06",
                        "stale-read-above-supplied",
                        format!(
                            "read up to buffer cell {} but only cells below {} hold supplied frames (in_next {})",
                            obs.win.max_read, limit, obs.before.in_next
                        ),
                    ));
                }
            }
        }
        Kind::SI | Kind::SO => {
            // filter windows that reach beyond the supplied frames are poisoned by the probe and
            // show up in the instants unless their weight is exactly zero; only the centre
            // cells (always weighted) are flagged directly
            if cfg.kernel == Kernel::Probe && obs.probe.above_valid > 0 {
                viols.push(v(
                    "C06",
                    "stale-read-above-supplied",
                    format!(
                        "{} of {} filter windows are centred beyond the frames supplied by the call (max cell {}, in_next {})",
                        obs.probe.above_valid, obs.probe.calls, obs.probe.max_cell, obs.before.in_next
                    ),
                ));
            }
        }
        _ => {}
    }
}

/// C03: a valid operation must complete: no panic; processing calls return Ok.
pub fn mon_c03(_cfg: &Cfg, obs: &Obs, viols: &mut Vec<Viol>) {
    if matches!(obs.op, Op::Bad(_)) {
        return;
    }
    match &obs.res {
        Res::Panic(m) => viols.push(v(
            "C03",
            format!("panic:{}", classify(m)),
            format!("{} -> {}", obs.op.text(), m),
        )),
        Res::Err(e) if obs.op.is_processing() => viols.push(v(
            "C03",
            format!("err:{}", e.variant),
            format!("{} -> {} (getters before: {:?})", obs.op.text(), e.text(), obs.before),
        )),
        _ => {}
    }
}

/// C04: advertised counts are bounds and exact reports.
pub fn mon_c04(cfg: &Cfg, obs: &Obs, viols: &mut Vec<Viol>) {
    let g: &Getters = &obs.after;
    if g.in_next > g.in_max {
        viols.push(v(
            "C04",
            "in_next>in_max",
            format!("after {}: input_frames_next {} > input_frames_max {}", obs.op.text(), g.in_next, g.in_max),
        ));
    }
    if g.out_next > g.out_max {
        viols.push(v(
            "C04",
            "out_next>out_max",
            format!("after {}: output_frames_next {} > output_frames_max {}", obs.op.text(), g.out_next, g.out_max),
        ));
    }
    if let (true, Res::Ok(i, o)) = (obs.op.is_processing(), &obs.res) {
        let b = &obs.before;
        if *i != b.in_next {
            viols.push(v(
                "C04",
                "consumed!=in_next",
                format!("{} returned in={} but input_frames_next was {}", obs.op.text(), i, b.in_next),
            ));
        }
        if *o > b.out_next {
            viols.push(v(
                "C04",
                "written>out_next",
                format!("{} returned out={} > output_frames_next {}", obs.op.text(), o, b.out_next),
            ));
        }
        if cfg.kind.fixed_out() && *o != b.out_next {
            viols.push(v(
                "C04",
                "fixedout:out!=out_next",
                format!("{} returned out={} but output_frames_next was {}", obs.op.text(), o, b.out_next),
            ));
        }
        match obs.op {
            Op::W | Op::WP(_) => {
                // the allocating wrappers size the output by output_frames_next and truncate
                for (c, l) in obs.ret_lens.iter().enumerate() {
                    if *l != *o {
                        viols.push(v(
                            "C04",
                            "wrapper-length",
                            format!("{}: channel {} has {} frames, others {}", obs.op.text(), c, l, o),
                        ));
                    }
                }
            }
            _ => {
                for (c, w) in obs.written.iter().enumerate() {
                    let act = obs.active.get(c).copied().unwrap_or(true);
                    if act {
                        if w.touched != w.prefix || w.prefix != *o {
                            viols.push(v(
                                "C04",
                                "written-cells!=returned",
                                format!(
                                    "{}: channel {} has {} cells written ({} as a prefix) but the call returned out={} (out_next {}, buffer {})",
                                    obs.op.text(), c, w.touched, w.prefix, o, b.out_next, w.len
                                ),
                            ));
                        }
                    } else if w.touched != 0 {
                        viols.push(v(
                            "C04",
                            "inactive-channel-written",
                            format!("{}: inactive channel {} has {} cells written", obs.op.text(), c, w.touched),
                        ));
                    }
                }
            }
        }
    }
    let _ = SLACK;
}

/// C09: no heap traffic in process_into_buffer, setters, reset, getters.
pub fn mon_c09(_cfg: &Cfg, obs: &Obs, viols: &mut Vec<Viol>) {
    if obs.getter_alloc.total() != 0 {
        viols.push(v(
            "C09",
            "getter-allocates",
            format!("getters around {}: {:?}", obs.op.text(), obs.getter_alloc),
        ));
    }
    let rt = matches!(
        obs.op,
        Op::P | Op::Px | Op::Pa | Op::PM(_, _) | Op::R(_, _) | Op::Ra(_, _) | Op::C(_) | Op::Z
    ) || matches!(obs.op, Op::Bad(b) if !matches!(b, Bad::WrapMaskLen(_) | Bad::WrapPartialMaskLen(_) | Bad::WrapInChans(_) | Bad::WrapInShort(_, _) | Bad::WrapPartialInChans(_)));
    if rt && obs.alloc.total() != 0 && !matches!(obs.res, Res::Panic(_)) {
        let what = match obs.op {
            Op::P | Op::Px | Op::Pa | Op::PM(_, _) => "process_into_buffer",
            Op::R(_, _) | Op::Ra(_, _) => "set_resample_ratio",
            Op::C(_) => "set_chunk_size",
            Op::Z => "reset",
            _ => "process_into_buffer(malformed)",
        };
        viols.push(v(
            "C09",
            format!("alloc-in:{}", what),
            format!("{} ({}): {:?}", obs.op.text(), obs.res.text(), obs.alloc),
        ));
    }
}

/// C13: a malformed call returns the matching error, writes nothing, changes nothing.
pub fn mon_c13(
    cfg: &Cfg,
    bad: Bad,
    obs: &Obs,
    before: &State,
    after: Option<&State>,
    viols: &mut Vec<Viol>,
) {
    let n = cfg.channels as f64;
    let adj = |d: i8| -> f64 {
        if d == i8::MIN {
            0.0
        } else {
            (cfg.channels as isize + d as isize).max(0) as f64
        }
    };
    let short = |need: usize, how: u8| -> f64 {
        (match how {
            1 => need.saturating_sub(1),
            2 => need / 2,
            _ => 0,
        }) as f64
    };
    // expected error
    let (variant, fields): (&str, Vec<(&str, f64)>) = match bad {
        Bad::InChans(d) | Bad::WrapInChans(d) | Bad::WrapPartialInChans(d) | Bad::AllOffInChans(d) => {
            ("WrongNumberOfInputChannels", vec![("expected", n), ("actual", adj(d))])
        }
        Bad::OutChans(d) | Bad::AllOffOutChans(d) => ("WrongNumberOfOutputChannels", vec![("expected", n), ("actual", adj(d))]),
        Bad::MaskLen(d) | Bad::WrapMaskLen(d) | Bad::WrapPartialMaskLen(d) => {
            ("WrongNumberOfMaskChannels", vec![("expected", n), ("actual", adj(d))])
        }
        Bad::InShort(c, how) | Bad::WrapInShort(c, how) => (
            "InsufficientInputBufferSize",
            vec![
                ("channel", c as f64),
                ("expected", obs.before.in_next as f64),
                ("actual", short(obs.before.in_next, how)),
            ],
        ),
        Bad::InShortBoth => (
            "InsufficientInputBufferSize",
            vec![("channel", 0.0), ("expected", obs.before.in_next as f64), ("actual", short(obs.before.in_next, 1))],
        ),
        Bad::OutShortBoth => (
            "InsufficientOutputBufferSize",
            vec![("channel", 0.0), ("expected", obs.before.out_next as f64), ("actual", short(obs.before.out_next, 1))],
        ),
        Bad::MaskedInShort(_, c) => (
            "InsufficientInputBufferSize",
            vec![
                ("channel", c as f64),
                ("expected", obs.before.in_next as f64),
                ("actual", short(obs.before.in_next, 1)),
            ],
        ),
        Bad::OutShort(c, how) => (
            "InsufficientOutputBufferSize",
            vec![
                ("channel", c as f64),
                ("expected", obs.before.out_next as f64),
                ("actual", short(obs.before.out_next, how)),
            ],
        ),
        Bad::MaskedOutShort(_, c) => (
            "InsufficientOutputBufferSize",
            vec![
                ("channel", c as f64),
                ("expected", obs.before.out_next as f64),
                ("actual", short(obs.before.out_next, 1)),
            ],
        ),
    };
    let tag = match bad {
        Bad::InChans(_) => "inchans",
        Bad::OutChans(_) => "outchans",
        Bad::MaskLen(_) => "masklen",
        Bad::WrapMaskLen(_) => "wrapmasklen",
        Bad::WrapPartialMaskLen(_) => "wrappartialmasklen",
        Bad::InShort(_, _) => "inshort",
        Bad::WrapInChans(_) => "wrapinchans",
        Bad::WrapInShort(_, _) => "wrapinshort",
        Bad::WrapPartialInChans(_) => "wrappartialinchans",
        Bad::OutShort(_, _) => "outshort",
        Bad::MaskedInShort(_, _) => "maskedinshort",
        Bad::MaskedOutShort(_, _) => "maskedoutshort",
        Bad::InShortBoth => "inshortboth",
        Bad::OutShortBoth => "outshortboth",
        Bad::AllOffOutChans(_) => "alloffoutchans",
        Bad::AllOffInChans(_) => "alloffinchans",
    };
    // an OutShort on a resampler whose next output is 0 frames is not malformed
    let vacuous = match bad {
        Bad::OutShort(_, _) | Bad::MaskedOutShort(_, _) | Bad::OutShortBoth => obs.before.out_next == 0,
        Bad::InShort(_, _) | Bad::MaskedInShort(_, _) | Bad::WrapInShort(_, _) | Bad::InShortBoth => obs.before.in_next == 0,
        _ => false,
    };
    if vacuous {
        return;
    }
    match &obs.res {
        Res::Panic(m) => viols.push(v(
            "C13",
            format!("{}:panic:{}", tag, classify(m)),
            format!("{} -> panic {}", obs.op.text(), m),
        )),
        Res::Ok(_, _) | Res::Unit => viols.push(v(
            "C13",
            format!("{}:accepted", tag),
            format!("{} -> {} (expected {})", obs.op.text(), obs.res.text(), variant),
        )),
        Res::Err(e) => {
            if e.variant != variant {
                viols.push(v(
                    "C13",
                    format!("{}:wrong-variant:{}", tag, e.variant),
                    format!("{} -> {} (expected {})", obs.op.text(), e.text(), variant),
                ));
            } else {
                for (name, want) in &fields {
                    if e.get(name) != Some(*want) {
                        viols.push(v(
                            "C13",
                            format!("{}:wrong-field:{}", tag, name),
                            format!("{} -> {} (expected {}={})", obs.op.text(), e.text(), name, want),
                        ));
                    }
                }
            }
        }
    }
    for (c, w) in obs.written.iter().enumerate() {
        if w.touched != 0 {
            viols.push(v(
                "C13",
                format!("{}:output-written", tag),
                format!("{}: {} cells of output channel {} written by a rejected call", obs.op.text(), w.touched, c),
            ));
        }
    }
    if let Some(after) = after {
        if before.scalars != after.scalars
            || before.data_hash != after.data_hash
            || before.data_shape != after.data_shape
        {
            let diff: Vec<String> = before
                .scalars
                .iter()
                .zip(after.scalars.iter())
                .filter(|(a, b)| a != b)
                .map(|(a, b)| format!("{}: {:#x}->{:#x}", a.0, a.1, b.1))
                .collect();
            viols.push(v(
                "C13",
                format!("{}:state-changed", tag),
                format!(
                    "{}: rejected call changed the resampler ({}; data {})",
                    obs.op.text(),
                    diff.join(", "),
                    if before.data_hash != after.data_hash { "changed" } else { "same" }
                ),
            ));
        }
    }
    let _ = (scalar, scalar_f64);
}

/// C10: after reset() the resampler equals a freshly constructed one (state and getters).
pub fn mon_c10(obs: &Obs, s0: &State, g0: &Getters, s1: &State, viols: &mut Vec<Viol>) {
    if !matches!(obs.res, Res::Unit) {
        viols.push(v("C10", "reset-failed", format!("reset -> {}", obs.res.text())));
        return;
    }
    if obs.after != *g0 {
        viols.push(v(
            "C10",
            "reset-getters-differ",
            format!("after reset {:?}, freshly constructed {:?}", obs.after, g0),
        ));
    }
    if s0.scalars != s1.scalars {
        let diff: Vec<String> = s0
            .scalars
            .iter()
            .zip(s1.scalars.iter())
            .filter(|(a, b)| a != b)
            .map(|(a, b)| format!("{}: fresh {:#x} reset {:#x}", a.0, a.1, b.1))
            .collect();
        viols.push(v("C10", "reset-control-differs", diff.join(", ")));
    }
    if s0.data_hash != s1.data_hash || s0.data_shape != s1.data_shape {
        viols.push(v(
            "C10",
            "reset-data-differs",
            "sample storage after reset differs from a freshly constructed resampler".to_string(),
        ));
    }
    if s0.mask != s1.mask {
        viols.push(v("C10", "reset-mask-differs", format!("{:?} vs {:?}", s0.mask, s1.mask)));
    }
}
