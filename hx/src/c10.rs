//! C10 (c): twin continuations. For a systematic subset of explored states: replay the
//! history, reset, run a fixed menu of continuations and demand bit-identical behaviour to a
//! freshly constructed resampler running the same continuation.

use crate::cfg::Cfg;
use crate::explore::{Found, Outcome};
use crate::ops::Op;
use crate::run::{Res, Runner, Signal};

fn menu(cfg: &Cfg) -> Vec<Vec<Op>> {
    let m = cfg.max_rel;
    let mut v = vec![vec![Op::P, Op::P, Op::P]];
    if cfg.kind.is_async() {
        v.push(vec![Op::R(m, true), Op::P, Op::P, Op::P]);
        v.push(vec![Op::R(1.0 / m, false), Op::P, Op::R(1.0, true), Op::P]);
    }
    if cfg.kind.is_sinc() {
        v.push(vec![Op::C((cfg.chunk / 2).max(1)), Op::P, Op::P]);
    }
    v.push(vec![Op::PP(Some(1)), Op::P, Op::W]);
    v
}

type Trace = Vec<(String, Vec<Vec<u64>>, crate::any::Getters)>;

fn run(r: &mut Runner<f64>, ops: &[Op]) -> Trace {
    r.keep_out = true;
    let mut t = Vec::new();
    for op in ops {
        let o = r.apply(*op);
        let res = match &o.res {
            Res::Panic(m) => format!("PANIC({})", crate::run::classify(m)),
            other => other.text(),
        };
        t.push((
            res,
            o.out.iter().map(|c| c.iter().map(|x| x.to_bits()).collect()).collect(),
            o.after,
        ));
        if r.dead {
            break;
        }
    }
    t
}

pub fn continuations(cfg: &Cfg, out: &mut Outcome) -> Result<(), String> {
    let menu = menu(cfg);
    let mut reference: Vec<Trace> = Vec::new();
    for s in &menu {
        let mut f = Runner::<f64>::new(cfg, Signal::Noise)?;
        reference.push(run(&mut f, s));
    }
    let sampled = std::mem::take(&mut out.sampled_states);
    for h in &sampled {
        for (s, want) in menu.iter().zip(reference.iter()) {
            let mut a = Runner::<f64>::new(cfg, Signal::Noise)?;
            if !a.replay(h) {
                break;
            }
            let z = a.apply(Op::Z);
            out.transitions += 1 + s.len() as u64;
            if !matches!(z.res, Res::Unit) {
                continue;
            }
            let got = run(&mut a, s);
            if &got != want {
                let step = got.iter().zip(want.iter()).position(|(x, y)| x != y).unwrap_or(0);
                let what = if got.get(step).map(|x| &x.0) != want.get(step).map(|x| &x.0) {
                    "result"
                } else if got.get(step).map(|x| &x.2) != want.get(step).map(|x| &x.2) {
                    "getters"
                } else {
                    "output samples"
                };
                if out.found.iter().filter(|f| f.sig == "reset-continuation-differs").count() < 12 {
                    let mut hist = h.clone();
                    hist.push(Op::Z);
                    hist.extend(s.iter().copied());
                    out.found.push(Found {
                        prop: "C10".into(),
                        sig: "reset-continuation-differs".into(),
                        detail: format!(
                            "after the history and reset, continuation step {} ({}) differs in {} from a freshly constructed resampler",
                            step, s.get(step).map(|o| o.text()).unwrap_or_default(), what
                        ),
                        history: hist,
                    });
                }
            }
        }
    }
    out.sampled_states = sampled;
    Ok(())
}
