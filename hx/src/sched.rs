//! E3 / C18: exhaustive call-boundary schedule enumeration on real OS threads.
//!
//! k instances, each with an m-step script (step 0 = construction), W worker threads. A
//! schedule is an interleaving of the k scripts plus, for every step, the worker thread that
//! executes it (the object is moved there). Exactly one thread runs at a time, so every
//! execution is deterministic and replayable. Oracle: every output bit-identical to the same
//! script run alone in a fresh process (and, sequentially, alone on a fresh thread of this one).

use crate::cfg::{Cfg, Degree, Interp, Kernel, Kind};
use crate::frame::{Check, JournalFile, Tier};
use crate::ops::Op;
use crate::run::{Res, Runner, Signal};
use serde_json::{json, Map, Value};
use std::sync::mpsc::{channel, Receiver, Sender};

pub struct C18;

type StepOut = Vec<(String, Vec<Vec<u64>>)>;

enum Job {
    Construct(Cfg, usize, u8),
    Step(Box<Runner<f64>>, Vec<Op>),
    Quit,
}

enum Done {
    Built(Result<Box<Runner<f64>>, String>),
    Stepped(Box<Runner<f64>>, StepOut),
}

fn exec(r: &mut Runner<f64>, ops: &[Op]) -> StepOut {
    let mut out = Vec::new();
    for op in ops {
        let o = r.apply(*op);
        let res = match &o.res {
            Res::Panic(m) => format!("PANIC({})", crate::run::classify(m)),
            other => other.text(),
        };
        out.push((res, o.out.iter().map(|c| c.iter().map(|x| x.to_bits()).collect()).collect()));
    }
    out
}

fn build(cfg: &Cfg, instance: usize, hostile: u8) -> Result<Box<Runner<f64>>, String> {
    // every instance gets its own signal so that leaked data is visible
    let signal = if hostile == 1 { Signal::NoiseSubnormalCh(7 * instance) } else { Signal::NoiseCh(7 * instance) };
    let mut r = Runner::<f64>::new(cfg, signal)?;
    r.keep_out = true;
    Ok(Box::new(r))
}

fn solo(cfg: &Cfg, instance: usize, partial: bool, hostile: u8) -> Result<Vec<StepOut>, String> {
    crate::run::install_panic_hook();
    let mut r = build(cfg, instance, hostile)?;
    let mut outs = Vec::new();
    for ops in script(cfg, partial, hostile) {
        outs.push(exec(&mut r, &ops));
    }
    Ok(outs)
}

/// `hx c18ref <mix> <instance>`: the script of one instance in this (fresh) process, as JSON.
pub fn reference_main(mix: usize, instance: usize) -> i32 {
    let Some(m) = mixes().into_iter().nth(mix) else { return 2 };
    let Some(cfg) = m.cfgs.get(instance) else { return 2 };
    match solo(cfg, instance, m.partial, m.hostile) {
        Ok(outs) => {
            println!("{}", serde_json::to_string(&outs).unwrap());
            0
        }
        Err(e) => {
            eprintln!("{}", e);
            2
        }
    }
}

/// `hx c18free <mix>`: as the very first use of the library in this (fresh) process, 16 threads
/// released from a barrier build and run the instances of the mix (thread t takes instance
/// t mod k); their outputs as JSON. SAMPLING of real concurrency - whatever is initialised
/// lazily on first use is initialised under contention here.
pub fn free_main(mix: usize) -> i32 {
    let Some(m) = mixes().into_iter().nth(mix) else { return 2 };
    let k = m.cfgs.len();
    let nthreads = 16;
    let barrier = std::sync::Arc::new(std::sync::Barrier::new(nthreads));
    let hs: Vec<_> = (0..nthreads)
        .map(|t| {
            let cfg = m.cfgs[t % k].clone();
            let b = barrier.clone();
            let (partial, hostile) = (m.partial, m.hostile);
            std::thread::spawn(move || {
                b.wait();
                solo(&cfg, t % k, partial, hostile)
            })
        })
        .collect();
    let mut all: Vec<Vec<StepOut>> = Vec::new();
    for h in hs {
        match h.join() {
            Ok(Ok(o)) => all.push(o),
            _ => return 2,
        }
    }
    println!("{}", serde_json::to_string(&all).unwrap());
    0
}

fn fresh_process_free_running(mix: usize) -> Result<Vec<Vec<StepOut>>, String> {
    let exe = std::env::current_exe().map_err(|e| e.to_string())?;
    let out = std::process::Command::new(exe).args(["c18free", &mix.to_string()]).output().map_err(|e| format!("c18free: {}", e))?;
    if !out.status.success() {
        return Err(format!("c18free {} failed: {}", mix, String::from_utf8_lossy(&out.stderr)));
    }
    serde_json::from_slice(&out.stdout).map_err(|e| format!("c18free output: {}", e))
}

fn fresh_process_reference(mix: usize, instance: usize) -> Result<Vec<StepOut>, String> {
    let exe = std::env::current_exe().map_err(|e| e.to_string())?;
    let out = std::process::Command::new(exe)
        .args(["c18ref", &mix.to_string(), &instance.to_string()])
        // another fill pattern for fresh heap blocks than this process uses (alloc.rs): memory
        // that is read before it is written makes the two differ
        .env("HX_POISON", "66")
        .output()
        .map_err(|e| format!("c18ref: {}", e))?;
    if !out.status.success() {
        return Err(format!("c18ref {} {} failed: {}", mix, instance, String::from_utf8_lossy(&out.stderr)));
    }
    serde_json::from_slice(&out.stdout).map_err(|e| format!("c18ref output: {}", e))
}

fn worker_loop(rx: Receiver<Job>, tx: Sender<Done>) {
    crate::run::install_panic_hook();
    while let Ok(job) = rx.recv() {
        match job {
            Job::Construct(cfg, inst, hostile) => {
                let _ = tx.send(Done::Built(build(&cfg, inst, hostile)));
            }
            Job::Step(mut r, ops) => {
                let o = exec(&mut r, &ops);
                let _ = tx.send(Done::Stepped(r, o));
            }
            Job::Quit => break,
        }
    }
}

#[derive(Clone, Debug)]
struct Mix {
    name: String,
    cfgs: Vec<Cfg>,
    /// end-of-stream scripts: `P PP(5)` then `PP(-)` (partial call with 5 frames, then a flush)
    partial: bool,
    /// every instance runs on a subnormal-level signal and the asynchronous ones make a
    /// rejected call (output buffer one frame short) between their first two calls: error
    /// paths that leave something behind on the thread (floating-point mode, scratch state)
    hostile: u8,
}

fn script(cfg: &Cfg, partial: bool, hostile: u8) -> Vec<Vec<Op>> {
    // step 0 is the construction
    if hostile == 2 {
        // a ratio decrease before the first call, a call with the second channel masked off, then
        // calls with every channel active: the room the buffers reserve for lower ratios is used
        // for the first time by a channel that sat out a call
        let lo = 1.0 / cfg.max_rel;
        return vec![vec![Op::R(lo, false), Op::PM(0b01, false), Op::P], vec![Op::P, Op::P]];
    }
    if hostile == 1 {
        use crate::ops::Bad;
        return vec![vec![Op::P, Op::Bad(Bad::OutShort(0, 1)), Op::P], vec![Op::Bad(Bad::InShort(0, 1)), Op::P]];
    }
    if partial {
        return vec![vec![Op::P, Op::PP(Some(5))], vec![Op::PP(None)]];
    }
    let second: Vec<Op> = if cfg.kind.is_async() {
        vec![Op::R((1.0 + cfg.max_rel) / 2.0, true), Op::P]
    } else {
        vec![Op::P]
    };
    vec![vec![Op::P, Op::P], second]
}

fn mixes() -> Vec<Mix> {
    let si = Cfg::sinc(Kind::SI, 1.2, 2.0, 24, 16, 8, Interp::Cubic, Kernel::Dispatch).with_channels(2);
    let so = Cfg::sinc(Kind::SO, 1.2, 2.0, 24, 16, 8, Interp::Cubic, Kernel::Dispatch).with_channels(2);
    let fo = Cfg::fast(Kind::FO, 0.8, 2.0, 16, Degree::Septic).with_channels(2);
    let fi = Cfg::fast(Kind::FI, 0.8, 2.0, 16, Degree::Cubic).with_channels(2);
    // equal FFT sizes (16 -> 24 points): the same planner cache keys
    let xi = Cfg::fft(Kind::XI, 2, 3, 32, 2).with_channels(2);
    let xo = Cfg::fft(Kind::XO, 2, 3, 48, 2).with_channels(2);
    let xx = Cfg::fft(Kind::XX, 2, 3, 16, 1).with_channels(2);
    let mut v = vec![
        Mix { hostile: 0, partial: false, name: "XI+XI equal fft sizes".to_string(), cfgs: vec![xi.clone(), xi.clone()] },
        Mix { hostile: 0, partial: false, name: "XO+XX equal fft sizes".to_string(), cfgs: vec![xo.clone(), xx.clone()] },
        Mix { hostile: 0, partial: false, name: "SI+SI identical tables".to_string(), cfgs: vec![si.clone(), si.clone()] },
        Mix { hostile: 0, partial: false, name: "SO+FI".to_string(), cfgs: vec![so.clone(), fi.clone()] },
        Mix { hostile: 0, partial: false, name: "SI+FO+XI".to_string(), cfgs: vec![si.clone(), fo.clone(), xi.clone()] },
        Mix { hostile: 0, partial: false, name: "XX+XI+XO equal fft sizes".to_string(), cfgs: vec![xx, xi.clone(), xo] },
        // equal input block, different output block (a cache keyed too coarsely would collide)
        Mix { hostile: 0, partial: false, name: "XX 3->2 + XX 3->1 same input block".to_string(), cfgs: vec![Cfg::fft(Kind::XX, 3, 2, 24, 1).with_channels(2), Cfg::fft(Kind::XX, 3, 1, 24, 1).with_channels(2)] },
        Mix { hostile: 0, partial: false, name: "XI 2->3 + XX 2->1 same input block".to_string(), cfgs: vec![xi, Cfg::fft(Kind::XX, 2, 1, 16, 1).with_channels(2)] },
        // instances that carry saved frames from call to call (chunk not a multiple of the block)
        Mix { hostile: 0, partial: false, name: "XI+XI with saved input frames".to_string(), cfgs: vec![Cfg::fft(Kind::XI, 3, 2, 16, 1).with_channels(2), Cfg::fft(Kind::XI, 3, 2, 16, 1).with_channels(2)] },
        Mix { hostile: 0, partial: false, name: "XO+XO with saved output frames".to_string(), cfgs: vec![Cfg::fft(Kind::XO, 2, 3, 10, 1).with_channels(2), Cfg::fft(Kind::XO, 2, 3, 10, 1).with_channels(2)] },
        Mix { hostile: 0, partial: false, name: "FO+FO identical".to_string(), cfgs: vec![fo.clone(), fo.clone()] },
        // identical sinc table sizes, different cutoff / window
        Mix { hostile: 0, partial: false, name: "SI+SI same table size different filter".to_string(), cfgs: vec![si.clone(), { let mut c = si.clone(); c.ratio = 0.8; c.window = rubato::WindowFunction::Hann; c }] },
        // same oversampling factor, different interpolation order (per-thread tables keyed by the factor only)
        Mix { hostile: 0, partial: false, name: "SI Cubic + SI Quadratic same oversampling".to_string(), cfgs: vec![si.clone(), { let mut c = si.clone(); c.interp = Interp::Quadratic; c }] },
        Mix { hostile: 0, partial: false, name: "SO Quadratic + SI Linear + SO Cubic same oversampling".to_string(), cfgs: vec![{ let mut c = so.clone(); c.interp = Interp::Quadratic; c }, { let mut c = si.clone(); c.interp = Interp::Linear; c }, so.clone()] },
        Mix { hostile: 0, partial: false, name: "FI Cubic + FI Septic".to_string(), cfgs: vec![fi.clone(), { let mut c = fi.clone(); c.degree = Degree::Septic; c }] },
        // large tables whose lengths divide each other (a shared table or window served by striding)
        Mix { hostile: 0, partial: false, name: "SI 192x256 + SI 64x256 taps x oversampling".to_string(), cfgs: vec![
            Cfg::sinc(Kind::SI, 1.2, 1.0, 64, 192, 256, Interp::Linear, Kernel::Dispatch),
            Cfg::sinc(Kind::SI, 1.2, 1.0, 64, 64, 256, Interp::Linear, Kernel::Dispatch),
        ] },
        Mix { hostile: 0, partial: false, name: "SO 320x256 Hann + SI 64x256 Hann2".to_string(), cfgs: vec![
            { let mut c = Cfg::sinc(Kind::SO, 0.8, 1.0, 64, 320, 256, Interp::Cubic, Kernel::Dispatch); c.window = rubato::WindowFunction::Hann; c },
            { let mut c = Cfg::sinc(Kind::SI, 0.8, 1.0, 64, 64, 256, Interp::Cubic, Kernel::Dispatch); c.window = rubato::WindowFunction::Hann2; c },
        ] },
        Mix { hostile: 0, partial: false, name: "XX 49152-point block + SI 64x256 (BlackmanHarris2 windows)".to_string(), cfgs: vec![
            Cfg::fft(Kind::XX, 3, 2, 49152, 1),
            Cfg::sinc(Kind::SI, 1.2, 1.0, 64, 64, 256, Interp::Nearest, Kernel::Dispatch),
        ] },
        // parameters that differ only slightly (a cache keyed on rounded floats would collide)
        Mix { hostile: 0, partial: false, name: "SI+SI cutoffs 3e-5 apart".to_string(), cfgs: vec![si.clone(), { let mut c = si.clone(); c.f_cutoff += 3.0e-5; c }] },
        Mix { hostile: 0, partial: false, name: "SI+SO downsampling, ratios 5e-5 apart".to_string(), cfgs: vec![{ let mut c = si.clone(); c.ratio = 0.91875; c }, { let mut c = so.clone(); c.ratio = 0.9187; c }] },
        // same type and ratios, different chunk sizes (state keyed without the chunk size would collide)
        Mix { hostile: 0, partial: false, name: "FI+FI chunk 16 and 24".to_string(), cfgs: vec![fi.clone(), { let mut c = fi.clone(); c.chunk = 24; c }] },
        Mix { hostile: 0, partial: false, name: "FO+FO chunk 16 and 9".to_string(), cfgs: vec![fo.clone(), { let mut c = fo.clone(); c.chunk = 9; c }] },
        Mix { hostile: 0, partial: false, name: "SI+SI chunk 24 and 7".to_string(), cfgs: vec![si.clone(), { let mut c = si.clone(); c.chunk = 7; c }] },
        Mix { hostile: 0, partial: false, name: "SO+SO chunk 24 and 7".to_string(), cfgs: vec![so.clone(), { let mut c = so.clone(); c.chunk = 7; c }] },
        // end-of-stream calls of instances with different channel counts (a shared scratch for the
        // padded input would be cleared for the caller's channels only)
        Mix { hostile: 0, partial: true, name: "FI 2ch + FI 1ch, partial calls".to_string(), cfgs: vec![fi.clone(), fi.clone().with_channels(1)] },
        Mix { hostile: 0, partial: true, name: "FI 2ch + SO 3ch, partial calls".to_string(), cfgs: vec![fi.clone(), so.clone().with_channels(3)] },
        Mix { hostile: 0, partial: true, name: "XI 2ch + XO 1ch, partial calls".to_string(), cfgs: vec![Cfg::fft(Kind::XI, 2, 3, 32, 2).with_channels(2), Cfg::fft(Kind::XO, 2, 3, 48, 2).with_channels(1)] },
        // rejected calls of one instance, subnormal-level signals in all: whatever an error path
        // leaves behind on the thread (floating-point control bits, half-updated scratch) shows
        // in the instance that runs there next
        Mix { hostile: 1, partial: false, name: "SI+FI rejected calls, subnormal signal".to_string(), cfgs: vec![si.clone(), fi.clone()] },
        Mix { hostile: 1, partial: false, name: "SO+FO rejected calls, subnormal signal".to_string(), cfgs: vec![so.clone(), fo.clone()] },
        Mix { hostile: 1, partial: false, name: "SI+XI rejected calls, subnormal signal".to_string(), cfgs: vec![si.clone(), Cfg::fft(Kind::XI, 2, 3, 32, 2).with_channels(2)] },
        Mix { hostile: 1, partial: false, name: "FI+SO+XX rejected calls, subnormal signal".to_string(), cfgs: vec![fi.clone(), so.clone(), Cfg::fft(Kind::XX, 2, 3, 16, 1).with_channels(2)] },
        Mix { hostile: 1, partial: false, name: "XO+SI rejected calls, subnormal signal".to_string(), cfgs: vec![Cfg::fft(Kind::XO, 2, 3, 48, 2).with_channels(2), si.clone()] },
        Mix { hostile: 2, partial: false, name: "SO+SO masked call after a ratio decrease".to_string(), cfgs: vec![so.clone(), { let mut c = so.clone(); c.max_rel = 8.0; c }] },
        Mix { hostile: 2, partial: false, name: "SI+FO masked call after a ratio decrease".to_string(), cfgs: vec![si.clone(), { let mut c = fo.clone(); c.max_rel = 4.0; c }] },
        Mix { hostile: 2, partial: false, name: "FI+SO masked call after a ratio decrease".to_string(), cfgs: vec![{ let mut c = fi.clone(); c.max_rel = 4.0; c }, so.clone()] },
        Mix { hostile: 0, partial: false, name: "SI+SO+SI 512 table entries split 32x16, 16x32, 64x8".to_string(), cfgs: vec![
            Cfg::sinc(Kind::SI, 1.2, 2.0, 24, 32, 16, Interp::Cubic, Kernel::Dispatch).with_channels(2),
            Cfg::sinc(Kind::SO, 1.2, 2.0, 24, 16, 32, Interp::Cubic, Kernel::Dispatch).with_channels(2),
            Cfg::sinc(Kind::SI, 1.2, 2.0, 24, 64, 8, Interp::Cubic, Kernel::Dispatch).with_channels(2),
        ] },
        Mix { hostile: 0, partial: false, name: "FO+FO ratios 3e-5 apart".to_string(), cfgs: vec![fo.clone(), { let mut c = fo.clone(); c.ratio += 3.0e-5; c }] },
    ];
    // lifecycles: three instances with distinct settings built in every order, one of them
    // dropped, a fourth built with the settings of one of the three (a per-thread registry of
    // weak references is purged and searched at that moment)
    {
        let w = |win: rubato::WindowFunction, l: usize, os: usize| {
            let mut c = Cfg::sinc(Kind::SI, 1.2, 2.0, 24, l, os, Interp::Cubic, Kernel::Dispatch).with_channels(2);
            c.window = win;
            c
        };
        v.push(Mix { hostile: 0, partial: false, name: "lifecycle sinc: three windows".to_string(), cfgs: vec![w(rubato::WindowFunction::Hann2, 16, 8), w(rubato::WindowFunction::Blackman2, 16, 8), w(rubato::WindowFunction::BlackmanHarris2, 16, 8)] });
        v.push(Mix { hostile: 0, partial: false, name: "lifecycle sinc: three shapes".to_string(), cfgs: vec![w(rubato::WindowFunction::BlackmanHarris2, 16, 8), w(rubato::WindowFunction::BlackmanHarris2, 24, 8), w(rubato::WindowFunction::BlackmanHarris2, 16, 16)] });
        // the same number of table entries, cutoff and window, split differently into taps and
        // sub-filters
        v.push(Mix { hostile: 0, partial: false, name: "lifecycle sinc: three splits of 512 table entries".to_string(), cfgs: vec![w(rubato::WindowFunction::BlackmanHarris2, 32, 16), w(rubato::WindowFunction::BlackmanHarris2, 16, 32), w(rubato::WindowFunction::BlackmanHarris2, 64, 8)] });
        v.push(Mix { hostile: 0, partial: false, name: "lifecycle fft: three blocks".to_string(), cfgs: vec![Cfg::fft(Kind::XX, 2, 1, 96, 1).with_channels(2), Cfg::fft(Kind::XX, 2, 1, 288, 1).with_channels(2), Cfg::fft(Kind::XX, 2, 1, 192, 1).with_channels(2)] });
        v.push(Mix { hostile: 0, partial: false, name: "lifecycle fast: three degrees".to_string(), cfgs: vec![fi.clone(), { let mut c = fi.clone(); c.degree = Degree::Septic; c }, { let mut c = fi.clone(); c.degree = Degree::Linear; c }] });
    }
    // FFT lengths that divide each other (a planner shared between instances serves parts of
    // the longer transform from what it planned for the shorter one): smooth lengths n and k*n
    for n in [96usize, 108, 144, 216, 240, 288, 360, 540, 756, 1152, 1440] {
        for k in [2usize, 3, 4, 5, 6, 8] {
            if n * k > 6000 {
                continue;
            }
            v.push(Mix { hostile: 0, partial: false, name: format!("pool fft XX 2->1 block {} + block {}", n, n * k), cfgs: vec![Cfg::fft(Kind::XX, 2, 1, n, 1), Cfg::fft(Kind::XX, 2, 1, n * k, 1)] });
        }
    }
    v.extend(pool_pairs());
    v
}


/// A pool of small configurations that differ from each other in one or two parameters at a
/// time; every unordered pair (and every configuration with itself) becomes a two-instance mix.
/// Shared state that is keyed by fewer parameters than it depends on shows as soon as two
/// instances agree on the key and differ elsewhere - whatever the key is.
fn pool() -> Vec<Cfg> {
    let mut p = Vec::new();
    for (kind, interp, os, ratio, chunk) in [
        (Kind::SI, Interp::Cubic, 8usize, 1.2f64, 24usize),
        (Kind::SI, Interp::Quadratic, 8, 1.2, 24),
        (Kind::SI, Interp::Linear, 8, 1.2, 24),
        (Kind::SI, Interp::Nearest, 8, 1.2, 24),
        (Kind::SI, Interp::Cubic, 16, 1.2, 24),
        (Kind::SI, Interp::Cubic, 8, 0.8, 24),
        (Kind::SI, Interp::Cubic, 8, 1.2, 7),
        (Kind::SO, Interp::Cubic, 8, 1.2, 24),
        (Kind::SO, Interp::Quadratic, 8, 0.8, 7),
    ] {
        p.push(Cfg::sinc(kind, ratio, 2.0, chunk, 16, os, interp, Kernel::Dispatch).with_channels(2));
    }
    {
        let mut c = Cfg::sinc(Kind::SI, 1.2, 2.0, 24, 16, 8, Interp::Cubic, Kernel::Dispatch).with_channels(2);
        c.window = rubato::WindowFunction::Hann;
        p.push(c);
        let mut c = Cfg::sinc(Kind::SI, 1.2, 2.0, 24, 24, 8, Interp::Cubic, Kernel::Dispatch).with_channels(1);
        c.f_cutoff = 0.9;
        p.push(c);
    }
    for (kind, degree, ratio, chunk, ch) in [
        (Kind::FI, Degree::Cubic, 0.8f64, 16usize, 2usize),
        (Kind::FI, Degree::Septic, 0.8, 16, 2),
        (Kind::FI, Degree::Cubic, 1.25, 16, 1),
        (Kind::FO, Degree::Cubic, 0.8, 16, 2),
        (Kind::FO, Degree::Linear, 0.8, 9, 3),
    ] {
        p.push(Cfg::fast(kind, ratio, 2.0, chunk, degree).with_channels(ch));
    }
    for (kind, a, b, chunk, sub, ch) in [
        (Kind::XI, 2usize, 3usize, 32usize, 2usize, 2usize),
        (Kind::XI, 3, 2, 16, 1, 2),
        (Kind::XO, 2, 3, 48, 2, 2),
        (Kind::XO, 2, 3, 10, 1, 1),
        (Kind::XX, 2, 3, 16, 1, 2),
        (Kind::XX, 3, 2, 24, 1, 2),
        (Kind::XX, 3, 1, 24, 1, 2),
    ] {
        p.push(Cfg::fft(kind, a, b, chunk, sub).with_channels(ch));
    }
    p
}

fn pool_pairs() -> Vec<Mix> {
    let p = pool();
    let mut v = Vec::new();
    for i in 0..p.len() {
        for j in i..p.len() {
            for partial in [false, true] {
                // end-of-stream scripts only for pairs that differ in channel count or type
                if partial && (p[i].channels == p[j].channels && p[i].kind == p[j].kind) {
                    continue;
                }
                v.push(Mix { hostile: 0, partial, name: format!("pool {}{} + {}", if partial { "(end of stream) " } else { "" }, p[i].short(), p[j].short()), cfgs: vec![p[i].clone(), p[j].clone()] });
            }
        }
    }
    v
}

/// All interleavings of k scripts of `m` steps each (as sequences of instance indices).
fn interleavings(k: usize, m: usize) -> Vec<Vec<usize>> {
    fn rec(left: &mut Vec<usize>, cur: &mut Vec<usize>, out: &mut Vec<Vec<usize>>) {
        if left.iter().all(|x| *x == 0) {
            out.push(cur.clone());
            return;
        }
        for i in 0..left.len() {
            if left[i] > 0 {
                left[i] -= 1;
                cur.push(i);
                rec(left, cur, out);
                cur.pop();
                left[i] += 1;
            }
        }
    }
    let mut out = Vec::new();
    rec(&mut vec![m; k], &mut Vec::new(), &mut out);
    out
}

#[derive(Clone, Copy, Debug, PartialEq)]
enum Migration {
    /// every assignment of steps to workers: W^(k*m)
    All,
    /// step j of the schedule runs on worker j mod W
    RoundRobin,
}

struct Item {
    mix: usize,
    migration: Migration,
    /// this item handles interleavings with index % parts == part
    part: usize,
    parts: usize,
}

fn items(tier: Tier) -> Vec<Item> {
    let mut v = Vec::new();
    for (i, m) in mixes().iter().enumerate() {
        let k = m.cfgs.len();
        if k == 2 && m.name.starts_with("pool ") && tier == Tier::Quick {
            v.push(Item { mix: i, migration: Migration::RoundRobin, part: 0, parts: 1 });
        } else if k == 2 {
            v.push(Item { mix: i, migration: Migration::All, part: 0, parts: 1 });
        } else if tier == Tier::Quick {
            v.push(Item { mix: i, migration: Migration::RoundRobin, part: 0, parts: 1 });
        } else {
            for part in 0..16 {
                v.push(Item { mix: i, migration: Migration::All, part, parts: 16 });
            }
        }
    }
    v
}

const W: usize = 2;
const M: usize = 3;

fn run_schedules(mix: &Mix, item: &Item, journal: Option<&JournalFile>) -> Result<Value, String> {
    let k = mix.cfgs.len();
    // ---- reference: each script alone in a process of its own (`hx c18ref`), so that not even
    // process-wide state left behind by another instance (or by the other references) is shared
    let mut reference: Vec<Vec<StepOut>> = Vec::new();
    for i in 0..k {
        reference.push(fresh_process_reference(item.mix, i)?);
    }
    let mut found: Vec<Value> = Vec::new();
    // the same scripts alone on fresh threads of this process, one after the other: whatever the
    // earlier ones left behind in the process must not show
    for (i, cfg) in mix.cfgs.iter().enumerate() {
        let cfg = cfg.clone();
        let (partial, hostile) = (mix.partial, mix.hostile);
        let outs = std::thread::spawn(move || solo(&cfg, i, partial, hostile))
            .join()
            .map_err(|_| "reference thread panicked".to_string())??;
        if outs != reference[i] {
            found.push(json!({
                "prop": "C18", "sig": "earlier-instance-changes-output",
                "detail": format!("mix '{}': instance {} run alone on a fresh thread after instances 0..{} were constructed and dropped in this process differs from the same script in a fresh process", mix.name, i, i),
                "cfg": mix.cfgs[i].to_json(), "history": "", "point": format!("mix={} sequential", mix.name),
            }));
        }
    }
    let inter = interleavings(k, M);
    let steps = k * M;
    let assignments: u64 = match item.migration {
        Migration::All => (W as u64).pow(steps as u32),
        Migration::RoundRobin => 1,
    };
    let mut schedules = 0u64;
    let mut transitions = 0u64;
    let mut sample: Option<Value> = None;
    let mut outcome_set: std::collections::BTreeSet<String> = Default::default();
    for (ii, order) in inter.iter().enumerate() {
        if ii % item.parts != item.part {
            continue;
        }
        // fresh worker threads for every interleaving: thread-local state left behind by one
        // interleaving cannot influence the next, within an interleaving it persists across the
        // worker assignments (which is where a per-thread cache would show)
        let mut txs: Vec<Sender<Job>> = Vec::new();
        let (done_tx, done_rx) = channel::<Done>();
        let mut handles = Vec::new();
        for _ in 0..W {
            let (tx, rx) = channel::<Job>();
            let dtx = done_tx.clone();
            handles.push(std::thread::spawn(move || worker_loop(rx, dtx)));
            txs.push(tx);
        }
        for a in 0..assignments {
            let worker_of = |j: usize| -> usize {
                match item.migration {
                    Migration::All => ((a >> j) & 1) as usize,
                    Migration::RoundRobin => j % W,
                }
            };
            if let Some(j) = journal {
                j.write(&json!({"mix": mix.name}), &format!("order {:?} assignment {:b}", order, a));
            }
            let mut objs: Vec<Option<Box<Runner<f64>>>> = (0..k).map(|_| None).collect();
            let mut next_step = vec![0usize; k];
            let mut ok = true;
            for (j, &inst) in order.iter().enumerate() {
                let w = worker_of(j);
                let s = next_step[inst];
                next_step[inst] += 1;
                transitions += 1;
                if s == 0 {
                    txs[w].send(Job::Construct(mix.cfgs[inst].clone(), inst, mix.hostile)).map_err(|e| e.to_string())?;
                    match done_rx.recv().map_err(|e| e.to_string())? {
                        Done::Built(Ok(r)) => objs[inst] = Some(r),
                        Done::Built(Err(e)) => return Err(format!("construction failed: {}", e)),
                        _ => return Err("protocol error".into()),
                    }
                } else {
                    let r = objs[inst].take().ok_or("object missing")?;
                    let ops = script(&mix.cfgs[inst], mix.partial, mix.hostile)[s - 1].clone();
                    txs[w].send(Job::Step(r, ops)).map_err(|e| e.to_string())?;
                    match done_rx.recv().map_err(|e| e.to_string())? {
                        Done::Stepped(r, out) => {
                            objs[inst] = Some(r);
                            if out != reference[inst][s - 1] {
                                ok = false;
                                if found.len() < 10 {
                                    let what = if out.iter().map(|x| &x.0).ne(reference[inst][s - 1].iter().map(|x| &x.0)) { "results" } else { "output samples" };
                                    found.push(json!({
                                        "prop": "C18", "sig": "schedule-changes-output",
                                        "detail": format!("mix '{}': instance {} step {} differs in {} from the isolated run; interleaving {:?}, worker of each step {:?}", mix.name, inst, s, what, order, (0..steps).map(worker_of).collect::<Vec<_>>()),
                                        "cfg": mix.cfgs[inst].to_json(), "history": "",
                                        "point": format!("mix={} order={:?} assignment={:b}", mix.name, order, a),
                                    }));
                                }
                            }
                        }
                        _ => return Err("protocol error".into()),
                    }
                }
            }
            schedules += 1;
            outcome_set.insert(format!("{}:{}:{}", mix.name, if ok { "same" } else { "DIFFERENT" }, order.iter().map(|x| x.to_string()).collect::<String>()));
            if sample.is_none() {
                sample = Some(json!({"mix": mix.name, "interleaving": order, "worker_of_step": (0..steps).map(worker_of).collect::<Vec<_>>(), "scripts": mix.cfgs.iter().map(|c| format!("construct {}; {}", c.short(), script(c, mix.partial, mix.hostile).iter().map(|s| crate::ops::history_text(s)).collect::<Vec<_>>().join("; "))).collect::<Vec<_>>()}));
            }
        }
        for tx in &txs {
            let _ = tx.send(Job::Quit);
        }
        for h in handles {
            let _ = h.join();
        }
    }
    // ---- lifecycles (mixes named so): build the three in every order, drop one, build a fourth
    // with the settings of one of the three, run its script; on a fresh thread per scenario
    if mix.name.starts_with("lifecycle") && k == 3 && item.part == 0 {
        let perms: [[usize; 3]; 6] = [[0, 1, 2], [0, 2, 1], [1, 0, 2], [1, 2, 0], [2, 0, 1], [2, 1, 0]];
        for perm in perms {
            for dropped in 0..3usize {
                for again in 0..3usize {
                    let cfgs = mix.cfgs.clone();
                    let (partial, hostile) = (mix.partial, mix.hostile);
                    let outs = std::thread::spawn(move || -> Result<Vec<StepOut>, String> {
                        crate::run::install_panic_hook();
                        let mut alive: Vec<Option<Box<Runner<f64>>>> = vec![None, None, None];
                        for &i in &perm {
                            alive[i] = Some(build(&cfgs[i], i, hostile)?);
                        }
                        alive[dropped] = None;
                        let mut r = build(&cfgs[again], again, hostile)?;
                        let mut outs = Vec::new();
                        for ops in script(&cfgs[again], partial, hostile) {
                            outs.push(exec(&mut r, &ops));
                        }
                        drop(alive);
                        Ok(outs)
                    })
                    .join()
                    .map_err(|_| "lifecycle thread panicked".to_string())??;
                    schedules += 1;
                    transitions += 5 + M as u64;
                    let ok = outs == reference[again];
                    outcome_set.insert(format!("{}:lifecycle:{}", mix.name, if ok { "same" } else { "DIFFERENT" }));
                    if !ok && found.len() < 10 {
                        found.push(json!({
                            "prop": "C18", "sig": "lifecycle-changes-output",
                            "detail": format!("mix '{}': instances built in order {:?}, instance {} dropped, then a new instance with the settings of instance {} built on the same thread: its output differs from the isolated run", mix.name, perm, dropped, again),
                            "cfg": mix.cfgs[again].to_json(), "history": "", "point": format!("mix={} lifecycle", mix.name),
                        }));
                    }
                }
            }
        }
    }
    // ---- supplementary, sampling (labelled so): the same, as the first use of the library in a
    // fresh process (lazily initialised process-wide state is initialised under contention)
    let mut fresh_free_rounds = 0u64;
    if item.part == 0 && !mix.name.starts_with("pool ") {
        for _ in 0..4 {
            let outs = fresh_process_free_running(item.mix)?;
            fresh_free_rounds += 1;
            for (t, o) in outs.iter().enumerate() {
                if o != &reference[t % k] && found.len() < 10 {
                    found.push(json!({
                        "prop": "C18", "sig": "concurrent-first-use-changes-output",
                        "detail": format!("mix '{}': instance {} built and run by one of 16 threads released together as the first use of the library in a fresh process differs from the isolated run (free-running, sampled)", mix.name, t % k),
                        "cfg": mix.cfgs[t % k].to_json(), "history": "", "point": format!("mix={} free-running in a fresh process", mix.name),
                    }));
                }
            }
        }
    }
    // ---- supplementary, sampling (labelled so): free-running threads behind a barrier
    let mut free_rounds = 0u64;
    if item.part == 0 {
        let rounds = if mix.name.starts_with("pool ") { 2 } else { 20 };
        let nthreads = 16;
        for _ in 0..rounds {
            let barrier = std::sync::Arc::new(std::sync::Barrier::new(nthreads));
            let hs: Vec<_> = (0..nthreads)
                .map(|t| {
                    let cfg = mix.cfgs[t % k].clone();
                    let inst = t % k;
                    let b = barrier.clone();
                    let (partial, hostile) = (mix.partial, mix.hostile);
                    std::thread::spawn(move || -> Result<Vec<StepOut>, String> {
                        crate::run::install_panic_hook();
                        b.wait();
                        let mut r = build(&cfg, inst, hostile)?;
                        let mut outs = Vec::new();
                        for ops in script(&cfg, partial, hostile) {
                            outs.push(exec(&mut r, &ops));
                        }
                        Ok(outs)
                    })
                })
                .collect();
            for (t, h) in hs.into_iter().enumerate() {
                match h.join() {
                    Ok(Ok(outs)) => {
                        if outs != reference[t % k] && found.len() < 10 {
                            found.push(json!({
                                "prop": "C18", "sig": "concurrent-run-changes-output",
                                "detail": format!("mix '{}': instance {} run concurrently with 15 other threads differs from the isolated run (free-running, sampled)", mix.name, t % k),
                                "cfg": mix.cfgs[t % k].to_json(), "history": "", "point": format!("mix={} free-running", mix.name),
                            }));
                        }
                    }
                    _ => return Err("free-running thread failed".into()),
                }
            }
            free_rounds += 1;
        }
    }
    Ok(json!({
        "label": format!("{} part {}/{}", mix.name, item.part, item.parts),
        "states": schedules, "transitions": transitions,
        "evaluations": schedules, "nontrivial": schedules,
        "outcomes": outcome_set.iter().take(2000).collect::<Vec<_>>(),
        "found": found, "samples": sample.map(|s| vec![s]).unwrap_or_default(),
        "extra": {"free_running_rounds_sampled": free_rounds + fresh_free_rounds, "interleavings": inter.len(), "assignments_per_interleaving": assignments},
    }))
}

impl Check for C18 {
    fn id(&self) -> &'static str {
        "C18"
    }
    fn level(&self) -> &'static str {
        "model_checking"
    }
    fn engine(&self) -> &'static str {
        "E3 exhaustive call-boundary schedule enumeration: cooperative scheduler over real OS threads, objects moved between threads at every step"
    }
    fn n_items(&self, tier: Tier) -> usize {
        items(tier).len()
    }
    fn run_item(&self, tier: Tier, idx: usize, journal: Option<&JournalFile>) -> Result<Value, String> {
        let item = items(tier).into_iter().nth(idx).ok_or("no item")?;
        let mix = mixes().into_iter().nth(item.mix).ok_or("no mix")?;
        run_schedules(&mix, &item, journal)
    }
    fn finalize(&self, _tier: Tier, items_v: &[Value], cov: &mut Map<String, Value>) {
        let fr: u64 = items_v.iter().map(|v| v["extra"]["free_running_rounds_sampled"].as_u64().unwrap_or(0)).sum();
        cov.insert("schedules_note".into(), json!("states = complete schedules executed (interleaving of the k scripts x worker thread of every step); transitions = steps (constructor or API calls) executed on worker threads"));
        cov.insert("supplementary_sampling_free_running_rounds".into(), json!(fr));
        cov.insert("supplementary_sampling_note".into(), json!("SAMPLING, not part of the exhaustive claim: the same scripts on 16 free-running threads behind a barrier"));
        cov.insert("bounds".into(), json!({"instances": "2 or 3", "steps_per_instance": M, "worker_threads": W}));
    }
    fn replay(&self, replay: &Value) -> Result<(bool, String), String> {
        crate::frame::replay_by_item(self, replay)
    }
    fn rule(&self, _tier: Tier) -> String {
        "instance mixes chosen to collide on everything shared (equal FFT sizes -> same planner cache keys, identical sinc tables, CPU-feature cache); every interleaving of the k three-step scripts (construct; two calls; [ratio change +] call) x every assignment of steps to 2 worker threads (k=3 in the quick tier: round-robin migration only); each schedule is one case; distinct = distinct (mix, interleaving) with its verdict".into()
    }
    fn assumptions(&self) -> Vec<String> {
        vec![
            "rubato has no synchronisation primitive of its own, so API-call boundaries are the only scheduling points a controlled scheduler can use; races inside one call are outside this check".into(),
            "memory-model effects are not modelled (one thread runs at a time; hand-offs are happens-before edges)".into(),
        ]
    }
    fn vacuity(&self, _tier: Tier) -> (u64, u64) {
        (1000, 20)
    }
}
