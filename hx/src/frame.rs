//! The check framework: work items, worker subprocesses (crash isolation), aggregation,
//! known-finding classification, replay artefacts, evidence files, exit codes.
//!
//! Exit codes: 0 = property held on everything explored (known findings may be listed),
//! 1 = at least one violation not listed as a known finding, 2 = machinery error.

use crate::cfg::Cfg;
use crate::kf;
use crate::ops::history_parse;
use serde_json::{json, Map, Value};
use std::collections::{BTreeMap, HashSet};
use std::io::{BufRead, BufReader, Write};
use std::process::{Command, Stdio};
use std::time::Instant;

#[derive(Clone, Copy, Debug, PartialEq, Eq)]
pub enum Tier {
    Quick,
    Thorough,
}

impl Tier {
    pub fn name(self) -> &'static str {
        match self {
            Tier::Quick => "quick",
            Tier::Thorough => "thorough",
        }
    }
    pub fn parse(s: &str) -> Option<Tier> {
        match s {
            "quick" => Some(Tier::Quick),
            "thorough" => Some(Tier::Thorough),
            _ => None,
        }
    }
}

/// Root of the verification tree (evidence, known findings, replays). Overridable so that
/// experiments on seeded changes can run from a scratch copy without touching /verif.
pub fn verif_root() -> String {
    std::env::var("HX_VERIF_ROOT").unwrap_or_else(|_| "/verif".to_string())
}

/// Slow-mode journal: the worker records what it is about to execute.
pub struct JournalFile(pub String);

impl JournalFile {
    pub fn write(&self, cfg: &Value, what: &str) {
        if let Ok(mut f) = std::fs::File::create(&self.0) {
            let _ = writeln!(f, "{}", json!({"cfg": cfg, "history": what}));
            let _ = f.sync_data();
        }
    }
}

pub trait Check: Sync {
    fn id(&self) -> &'static str;
    /// "model_checking" or "exploration"
    fn level(&self) -> &'static str;
    fn engine(&self) -> &'static str;
    fn n_items(&self, tier: Tier) -> usize;
    /// Run work item `idx`; the result is a JSON object with the standard keys
    /// (states, transitions, evaluations, nontrivial, horizon_caps, closed, state_caps,
    ///  outcomes[], found[], samples[], extra{}).
    fn run_item(&self, tier: Tier, idx: usize, journal: Option<&JournalFile>) -> Result<Value, String>;
    /// Check-specific additions to the coverage object.
    fn finalize(&self, _tier: Tier, _items: &[Value], _coverage: &mut Map<String, Value>) {}
    /// Re-execute one recorded violation on the current tree; returns (still violates, log).
    fn replay(&self, replay: &Value) -> Result<(bool, String), String>;
    fn rule(&self, tier: Tier) -> String;
    fn assumptions(&self) -> Vec<String>;
    /// minimum numbers for the vacuity guard: (states-or-evaluations, distinct outcomes)
    fn vacuity(&self, _tier: Tier) -> (u64, u64) {
        (2, 2)
    }
}

fn u(v: &Value, k: &str) -> u64 {
    v.get(k).and_then(|x| x.as_u64()).unwrap_or(0)
}

/// Worker: run the items of one shard, one line per event on stdout.
pub fn worker(check: &dyn Check, tier: Tier, shard: usize, nshards: usize, resume_after: Option<usize>, only: Option<usize>, journal: Option<String>) -> i32 {
    let n = check.n_items(tier);
    let out = std::io::stdout();
    let jf = journal.map(JournalFile);
    // a worker whose driver has gone (killed, timed out) must not keep computing: watch the
    // parent pid and leave as soon as it changes; a failed write to the result pipe ends it too
    fn ppid() -> Option<String> {
        let st = std::fs::read_to_string("/proc/self/status").ok()?;
        st.lines().find(|l| l.starts_with("PPid:")).map(|l| l.to_string())
    }
    if let Some(p0) = ppid() {
        std::thread::spawn(move || loop {
            std::thread::sleep(std::time::Duration::from_secs(2));
            if ppid().map(|p| p != p0).unwrap_or(false) {
                std::process::exit(3);
            }
        });
    }
    let idxs: Vec<usize> = match only {
        Some(i) => vec![i],
        None => (0..n)
            .filter(|i| i % nshards == shard)
            .filter(|i| resume_after.map(|r| *i > r).unwrap_or(true))
            .collect(),
    };
    for idx in idxs {
        {
            let mut o = out.lock();
            if writeln!(o, "B {}", idx).is_err() || o.flush().is_err() {
                return 3;
            }
        }
        let t_item = Instant::now();
        match check.run_item(tier, idx, jf.as_ref()) {
            Ok(mut v) => {
                v["wall_ms"] = json!(t_item.elapsed().as_millis() as u64);
                if let Some(a) = v.get_mut("found").and_then(|x| x.as_array_mut()) {
                    for f in a.iter_mut() {
                        f["item"] = json!(idx);
                    }
                }
                let mut o = out.lock();
                let _ = writeln!(o, "R {} {}", idx, v);
                let _ = o.flush();
            }
            Err(e) => {
                let mut o = out.lock();
                let _ = writeln!(o, "E {} {}", idx, json!(e));
                let _ = o.flush();
            }
        }
    }
    0
}

struct ShardRun {
    results: Vec<(usize, Value)>,
    errors: Vec<(usize, String)>,
    crashed_at: Option<usize>,
    status: String,
}

fn run_shard(exe: &str, id: &str, tier: Tier, shard: usize, nshards: usize, resume_after: Option<usize>) -> Result<ShardRun, String> {
    let mut cmd = Command::new(exe);
    cmd.arg("worker").arg(id).arg(tier.name()).arg(shard.to_string()).arg(nshards.to_string());
    if let Some(r) = resume_after {
        cmd.arg("--resume-after").arg(r.to_string());
    }
    // worker stderr (std's abort messages) goes to a log file, not into the check's output
    let errlog = std::fs::OpenOptions::new()
        .create(true)
        .append(true)
        .open(format!("{}/hx/target/worker-stderr.log", verif_root()))
        .map(Stdio::from)
        .unwrap_or_else(|_| Stdio::null());
    cmd.stdout(Stdio::piped()).stderr(errlog);
    let mut child = cmd.spawn().map_err(|e| format!("spawn worker: {}", e))?;
    let stdout = child.stdout.take().unwrap();
    let mut results = Vec::new();
    let mut errors = Vec::new();
    let mut inflight: Option<usize> = None;
    for line in BufReader::new(stdout).lines() {
        let line = line.map_err(|e| format!("read worker: {}", e))?;
        let mut parts = line.splitn(3, ' ');
        match (parts.next(), parts.next(), parts.next()) {
            (Some("B"), Some(i), _) => inflight = i.parse().ok(),
            (Some("R"), Some(i), Some(js)) => {
                let i: usize = i.parse().map_err(|_| "bad index".to_string())?;
                let v: Value = serde_json::from_str(js).map_err(|e| format!("worker json: {}", e))?;
                results.push((i, v));
                inflight = None;
            }
            (Some("E"), Some(i), Some(js)) => {
                let i: usize = i.parse().map_err(|_| "bad index".to_string())?;
                errors.push((i, js.to_string()));
                inflight = None;
            }
            _ => {}
        }
    }
    let status = child.wait().map_err(|e| format!("wait: {}", e))?;
    let crashed_at = if status.success() { None } else { inflight };
    if !status.success() && inflight.is_none() {
        return Err(format!("worker shard {} exited with {} outside any work item", shard, status));
    }
    Ok(ShardRun {
        results,
        errors,
        crashed_at,
        status: format!("{}", status),
    })
}

/// After a worker died inside item `idx`: rerun that item alone with a journal to localise it.
fn localise_crash(exe: &str, id: &str, tier: Tier, idx: usize) -> Result<Value, String> {
    let jpath = format!("{}/hx/target/journal-{}-{}-{}.tmp", verif_root(), id, std::process::id(), idx);
    let _ = std::fs::remove_file(&jpath);
    let status = Command::new(exe)
        .arg("worker")
        .arg(id)
        .arg(tier.name())
        .arg("0")
        .arg("1")
        .arg("--only")
        .arg(idx.to_string())
        .arg("--journal")
        .arg(&jpath)
        .stdout(Stdio::null())
        .stderr(Stdio::null())
        .status()
        .map_err(|e| format!("spawn: {}", e))?;
    if status.success() {
        return Err(format!(
            "item {} killed its worker once but completed when rerun alone (non-deterministic crash)",
            idx
        ));
    }
    let text = std::fs::read_to_string(&jpath).map_err(|_| {
        format!("item {} kills the worker ({}) before any journalled step", idx, status)
    })?;
    let _ = std::fs::remove_file(&jpath);
    let mut v: Value = serde_json::from_str(text.trim()).map_err(|e| format!("journal: {}", e))?;
    v["status"] = json!(format!("{}", status));
    Ok(v)
}

pub struct RunOutcome {
    pub exit: i32,
}

/// Parent: run all shards, aggregate, classify, write evidence.
pub fn run_check(check: &dyn Check, tier: Tier, exe: &str) -> RunOutcome {
    let t0 = Instant::now();
    let id = check.id();
    let n = check.n_items(tier);
    let seed: i64 = std::env::var("VERIF_SEED").ok().and_then(|s| s.parse().ok()).unwrap_or(0);
    let workers: usize = std::env::var("HX_WORKERS")
        .ok()
        .and_then(|s| s.parse().ok())
        .unwrap_or(16)
        .min(n.max(1));
    let mut items: BTreeMap<usize, Value> = BTreeMap::new();
    let mut machinery: Vec<String> = Vec::new();
    let mut aborts: Vec<Value> = Vec::new();

    let handles: Vec<_> = (0..workers)
        .map(|shard| {
            let exe = exe.to_string();
            let id = id.to_string();
            std::thread::spawn(move || {
                let mut all: Vec<(usize, Value)> = Vec::new();
                let mut errs: Vec<(usize, String)> = Vec::new();
                let mut crashes: Vec<(usize, String)> = Vec::new();
                let mut resume: Option<usize> = None;
                let mut fatal: Option<String> = None;
                loop {
                    match run_shard(&exe, &id, tier, shard, workers, resume) {
                        Ok(r) => {
                            all.extend(r.results);
                            errs.extend(r.errors);
                            match r.crashed_at {
                                Some(i) => {
                                    crashes.push((i, r.status));
                                    if crashes.len() > 50 {
                                        fatal = Some(format!("shard {}: more than 50 worker crashes", shard));
                                        break;
                                    }
                                    resume = Some(i);
                                }
                                None => break,
                            }
                        }
                        Err(e) => {
                            fatal = Some(e);
                            break;
                        }
                    }
                }
                (all, errs, crashes, fatal)
            })
        })
        .collect();
    let mut crashed_items: Vec<(usize, String)> = Vec::new();
    for h in handles {
        match h.join() {
            Ok((all, errs, crashes, fatal)) => {
                for (i, v) in all {
                    items.insert(i, v);
                }
                for (i, e) in errs {
                    machinery.push(format!("item {}: {}", i, e));
                }
                crashed_items.extend(crashes);
                if let Some(f) = fatal {
                    machinery.push(f);
                }
            }
            Err(_) => machinery.push("aggregator thread panicked".into()),
        }
    }
    for (idx, status) in &crashed_items {
        match localise_crash(exe, id, tier, *idx) {
            Ok(v) => aborts.push(json!({"item": idx, "status": status, "cfg": v["cfg"], "history": v["history"]})),
            Err(e) => machinery.push(e),
        }
    }
    let missing: Vec<usize> = (0..n)
        .filter(|i| !items.contains_key(i) && !crashed_items.iter().any(|(c, _)| c == i))
        .collect();
    if !missing.is_empty() && machinery.is_empty() {
        machinery.push(format!("{} work items produced no result, e.g. {:?}", missing.len(), &missing[..missing.len().min(5)]));
    }

    // ---- aggregate
    let vals: Vec<Value> = items.values().cloned().collect();
    let mut sum: BTreeMap<&str, u64> = BTreeMap::new();
    for k in ["states", "transitions", "evaluations", "nontrivial", "horizon_caps", "closed", "state_caps", "terminal", "effective_deviations", "found_overflow"] {
        sum.insert(k, vals.iter().map(|v| u(v, k)).sum());
    }
    let mut outcomes: HashSet<String> = HashSet::new();
    let mut samples: Vec<Value> = Vec::new();
    let mut sample_scan = 0usize;
    let mut found: Vec<Value> = Vec::new();
    for v in &vals {
        if let Some(a) = v.get("outcomes").and_then(|x| x.as_array()) {
            for o in a {
                if let Some(s) = o.as_str() {
                    outcomes.insert(s.to_string());
                }
            }
        }
        if let Some(a) = v.get("samples").and_then(|x| x.as_array()) {
            // at most one sample per work item, spread over the items
            let rich = |v: &Value| v.get("history").and_then(|h| h.as_str()).map(|h| h.matches('(').count()).unwrap_or(0);
            if let Some(s) = a.iter().max_by_key(|v| rich(v)) {
                if samples.len() < 12 && (samples.len() < 4 || (items.len() >= 12 && samples.len() * (items.len() / 12).max(1) <= sample_scan)) {
                    samples.push(s.clone());
                }
            }
            sample_scan += 1;
        }
        if let Some(a) = v.get("found").and_then(|x| x.as_array()) {
            found.extend(a.iter().cloned());
        }
    }
    for a in &aborts {
        found.push(json!({
            "prop": if id == "C03" { "C03" } else { id },
            "sig": "abort",
            "detail": format!("worker process died ({}) while executing this history", a["status"].as_str().unwrap_or("?")),
            "cfg": a["cfg"], "history": a["history"],
        }));
    }

    if let Ok(path) = std::env::var("HX_DUMP") {
        let mut text = String::new();
        for f in &found {
            text.push_str(&f.to_string());
            text.push('\n');
        }
        let _ = std::fs::write(path, text);
    }

    // ---- classify against the known findings
    let entries = match kf::load(&format!("{}/known_findings.json", verif_root())) {
        Ok(e) => e,
        Err(e) => {
            machinery.push(e);
            Vec::new()
        }
    };
    let mut known: BTreeMap<String, (u64, Value, String)> = BTreeMap::new();
    let mut fresh: Vec<Value> = Vec::new();
    for f in &found {
        let prop = f["prop"].as_str().unwrap_or(id);
        if prop != id {
            continue;
        }
        let sig = f["sig"].as_str().unwrap_or("");
        let k = match (Cfg::from_json(&f["cfg"]), history_parse(f["history"].as_str().unwrap_or(""))) {
            (Ok(cfg), Ok(h)) => kf::classify(&entries, prop, sig, &cfg, &h, f),
            _ => {
                // lattice points (E2) carry no history: match on the cfg and point description
                match Cfg::from_json(&f["cfg"]) {
                    Ok(cfg) => kf::classify(&entries, prop, sig, &cfg, &[], f),
                    Err(_) => None,
                }
            }
        };
        match k {
            Some(e) => {
                let ent = known.entry(e.id.clone()).or_insert((0, f.clone(), e.what.clone()));
                ent.0 += 1;
            }
            None => fresh.push(f.clone()),
        }
    }

    // ---- report
    let _ = std::fs::create_dir_all(format!("{}/replays", verif_root()));
    let mut printed: HashSet<String> = HashSet::new();
    let mut nviol = 0;
    let mut replayed = 0;
    for f in &fresh {
        // one replay file per (sig, cfg kind): the first (shortest) is kept
        let key = format!("{}|{}|{}", f["sig"].as_str().unwrap_or(""), f["cfg"]["kind"].as_str().unwrap_or(""), f["cfg"].to_string());
        let mut hsh = rubato::verif::Hasher::default();
        hsh.bytes(key.as_bytes());
        hsh.bytes(f["history"].as_str().unwrap_or("").as_bytes());
        let path = format!("{}/replays/{}-{:016x}.json", verif_root(), id, hsh.0);
        // one line and one replay file per class (signature, kind): BFS order makes the first
        // one the shortest; the total count is in the evidence
        let class = format!("{}|{}", f["sig"].as_str().unwrap_or(""), f["cfg"]["kind"].as_str().unwrap_or(""));
        nviol += 1;
        if !printed.insert(class) {
            continue;
        }
        let body = json!({
            "property": id, "engine": check.engine(), "tier": tier.name(),
            "cfg": f["cfg"], "history": f["history"], "point": f.get("point").cloned().unwrap_or(Value::Null),
            "signature": f["sig"], "detail": f["detail"],
            "item": f.get("item").cloned().unwrap_or(Value::Null),
            "sample_type": f.get("sample_type").cloned().unwrap_or(Value::Null),
            "x": f.get("x").cloned().unwrap_or(Value::Null),
        });
        let _ = std::fs::write(&path, serde_json::to_string_pretty(&body).unwrap());
        // determinism: the recorded case must fail again when replayed on its own, twice
        if replayed < 8 && f["sig"] != "abort" {
            replayed += 1;
            for round in 0..2 {
                match check.replay(&body) {
                    Ok((true, _)) => {}
                    Ok((false, _)) => {
                        machinery.push(format!("violation {} did not reproduce on replay {} of {} (non-deterministic harness or environment)", path, round + 1, 2));
                        break;
                    }
                    Err(e) => {
                        machinery.push(format!("replay of {} failed: {}", path, e));
                        break;
                    }
                }
            }
        }
        println!("VIOLATION property={} replay={}", id, path);
        println!("  # {} | {} | {} | {}", f["sig"].as_str().unwrap_or(""), f["cfg"].to_string(), f["history"].as_str().unwrap_or(""), f["detail"].as_str().unwrap_or(""));
    }
    for (kid, (count, ex, what)) in &known {
        println!(
            "KNOWN-FINDING: property={} {} {} [{} occurrences, e.g. {} {}]",
            id, kid, what, count, ex["cfg"].to_string(), ex["history"].as_str().unwrap_or("")
        );
    }
    if tier == Tier::Thorough {
        for e in entries.iter().filter(|e| e.status == "open" && e.property == id) {
            if !known.contains_key(&e.id) {
                println!("KNOWN-FINDING-STALE: {} (no occurrence in this run)", e.id);
            }
        }
    }

    // ---- evidence
    let states = sum["states"];
    let transitions = sum["transitions"];
    let evaluations = if sum["evaluations"] > 0 { sum["evaluations"] } else { transitions };
    let nontrivial = if sum["nontrivial"] > 0 { sum["nontrivial"] } else { outcomes.len() as u64 };
    let exhaustive = sum["horizon_caps"] == 0 && sum["state_caps"] == 0 && machinery.is_empty() && crashed_items.is_empty();
    let mut cov = Map::new();
    if check.level() == "model_checking" {
        cov.insert("states".into(), json!(states));
        cov.insert("transitions".into(), json!(transitions));
        cov.insert("traces_validated_against_impl".into(), json!(transitions));
    }
    cov.insert("evaluations".into(), json!(evaluations));
    cov.insert("distinct_nontrivial".into(), json!(nontrivial));
    cov.insert("rule".into(), json!(check.rule(tier)));
    if samples.is_empty() {
        samples.push(json!("(no sample recorded)"));
    }
    cov.insert("samples".into(), json!(samples));
    cov.insert("exhaustive".into(), json!(exhaustive));
    cov.insert("work_items".into(), json!(n));
    cov.insert("work_items_completed".into(), json!(items.len()));
    cov.insert("horizon_caps_hit".into(), json!(sum["horizon_caps"]));
    cov.insert("state_caps_hit".into(), json!(sum["state_caps"]));
    cov.insert("orbits_closed".into(), json!(sum["closed"]));
    cov.insert("terminal_states".into(), json!(sum["terminal"]));
    cov.insert("effective_deviations".into(), json!(sum["effective_deviations"]));
    cov.insert("distinct_outcomes".into(), json!(outcomes.len()));
    cov.insert("violations_new".into(), json!(fresh.len()));
    cov.insert("violation_examples_dropped".into(), json!(sum["found_overflow"]));
    cov.insert(
        "known_findings_matched".into(),
        json!(known.iter().map(|(k, v)| json!({"id": k, "occurrences": v.0})).collect::<Vec<_>>()),
    );
    cov.insert("worker_crashes".into(), json!(crashed_items.len()));
    cov.insert("engine".into(), json!(check.engine()));
    let mut slow: Vec<(u64, String)> = vals
        .iter()
        .map(|v| (u(v, "wall_ms"), v["label"].as_str().unwrap_or("").to_string()))
        .collect();
    slow.sort_by(|a, b| b.0.cmp(&a.0));
    cov.insert(
        "slowest_items_ms".into(),
        json!(slow.iter().take(5).map(|(ms, l)| json!({"ms": ms, "item": l})).collect::<Vec<_>>()),
    );
    cov.insert("cpu_ms_total".into(), json!(slow.iter().map(|x| x.0).sum::<u64>()));
    check.finalize(tier, &vals, &mut cov);
    let wall = t0.elapsed().as_secs_f64();
    let ev = json!({
        "property_id": id, "tier": tier.name(), "seed": seed, "level": check.level(),
        "coverage": Value::Object(cov), "assumptions": check.assumptions(),
        "wall_s": (wall * 100.0).round() / 100.0, "violations": fresh.len(),
    });
    let _ = std::fs::create_dir_all(format!("{}/evidence", verif_root()));
    if let Err(e) = std::fs::write(format!("{}/evidence/{}.json", verif_root(), id), serde_json::to_string_pretty(&ev).unwrap() + "\n") {
        machinery.push(format!("cannot write evidence: {}", e));
    }

    println!(
        "{} {}: items={} states={} transitions={} evaluations={} outcomes={} caps={}/{} new_violations={} known={} wall={:.1}s",
        id, tier.name(), n, states, transitions, evaluations, outcomes.len(), sum["horizon_caps"], sum["state_caps"],
        fresh.len(), known.len(), wall
    );

    // ---- vacuity guard
    let (min_work, min_outcomes) = check.vacuity(tier);
    let work = if check.level() == "model_checking" { states } else { evaluations };
    if machinery.is_empty() && (work < min_work || (outcomes.len() as u64) < min_outcomes) {
        machinery.push(format!(
            "vacuity guard: explored {} (minimum {}), distinct outcomes {} (minimum {})",
            work, min_work, outcomes.len(), min_outcomes
        ));
    }
    for m in &machinery {
        println!("MACHINERY-ERROR: {}", m);
    }
    if !fresh.is_empty() && !machinery.iter().any(|m| m.contains("did not reproduce")) {
        return RunOutcome { exit: 1 };
    }
    if !machinery.is_empty() {
        return RunOutcome { exit: 2 };
    }
    RunOutcome { exit: 0 }
}

/// Replay for checks whose violations are lattice points or whole trees: re-run the recorded
/// work item in the recorded tier and look for a finding with the same signature (and, when
/// present, the same configuration).
pub fn replay_by_item(check: &dyn Check, replay: &Value) -> Result<(bool, String), String> {
    let tier = Tier::parse(replay["tier"].as_str().unwrap_or("quick")).unwrap_or(Tier::Quick);
    let idx = replay["item"].as_u64().ok_or("replay file has no item index")? as usize;
    if idx >= check.n_items(tier) {
        return Err("item index out of range".into());
    }
    let mut log = String::new();
    let mut bad = false;
    let v = check.run_item(tier, idx, None)?;
    for f in v["found"].as_array().cloned().unwrap_or_default() {
        if f["sig"] == replay["signature"] && (replay["cfg"].is_null() || f["cfg"] == replay["cfg"]) {
            bad = true;
            log.push_str(&format!(
                "    VIOLATES {} [{}] {} {} | {}\n",
                check.id(),
                f["sig"].as_str().unwrap_or(""),
                f["history"].as_str().unwrap_or(""),
                f["point"].as_str().unwrap_or(""),
                f["detail"].as_str().unwrap_or("")
            ));
        }
    }
    Ok((bad, log))
}
