//! The control-exploration checks (E1): C03, C04, C06, C09, C13 share one lattice and one
//! explorer and differ in alphabet and monitors.

use crate::cfg::{Cfg, Degree, Interp, Kernel, Kind};
use crate::explore::{explore, Alpha, Outcome, Spec, Sys};
use crate::frame::{Check, JournalFile, Tier};
use crate::ops::{history_parse, history_text, Op};
use crate::run::Signal;
use crate::track::{Props, Tracked};
use serde_json::{json, Map, Value};

pub struct CtrlCheck {
    pub id: &'static str,
}

#[derive(Clone, Debug)]
pub struct Item {
    pub cfgs: Vec<Cfg>,
    pub f32_too: bool,
}

pub const R_147_160: f64 = 147.0 / 160.0;
pub const R_160_147: f64 = 160.0 / 147.0;

fn async_lattice(tier: Tier, want_probe_only: bool) -> Vec<Cfg> {
    let q = tier == Tier::Quick;
    let ratios: Vec<f64> = if q {
        vec![0.5, 1.0, 2.0, 16.0, R_147_160]
    } else {
        vec![1.0 / 16.0, 0.25, 0.5, 0.8, 1.0, 1.6, 2.0, 4.0, 16.0, R_147_160, R_160_147, 1.2]
    };
    let max_rels: Vec<f64> = if q { vec![1.0, 2.0, 10.0] } else { vec![1.0, 1.25, 2.0, 4.0, 8.0, 10.0] };
    let chunks: Vec<usize> = if q { vec![1, 8, 64] } else { vec![1, 2, 7, 8, 16, 64] };
    let sinc_lens: Vec<usize> = if q { vec![8] } else { vec![8, 16, 64] };
    // thorough: all eight (oversampling, interpolation) variants at L = 8, the four
    // interpolations at L = 16, one at L = 64 (control depends on L only through offsets)
    let variant_ok = |l: usize, os: usize, interp: Interp| -> bool {
        (q && !(os == 1 && interp == Interp::Cubic && false)) || (l == 8 && !(os == 2 && matches!(interp, Interp::Linear | Interp::Nearest)))
            || (l == 16 && os == 2 && matches!(interp, Interp::Cubic | Interp::Nearest))
            || (l == 64 && os == 2 && interp == Interp::Cubic)
    };
    let sinc_variants: Vec<(usize, Interp)> = if q {
        vec![(2, Interp::Cubic), (2, Interp::Linear), (1, Interp::Cubic), (256, Interp::Cubic)]
    } else {
        vec![
            (1, Interp::Linear),
            (1, Interp::Nearest),
            (2, Interp::Cubic),
            (2, Interp::Quadratic),
            (2, Interp::Linear),
            (2, Interp::Nearest),
            (256, Interp::Cubic),
            (256, Interp::Nearest),
            (1, Interp::Cubic),
            (1, Interp::Quadratic),
        ]
    };
    let degrees: Vec<Degree> = if q {
        vec![Degree::Septic, Degree::Cubic, Degree::Linear]
    } else {
        Degree::ALL.to_vec()
    };
    let mut out = Vec::new();
    for &ratio in &ratios {
        for &m in &max_rels {
            for &chunk in &chunks {
                for kind in [Kind::SI, Kind::SO] {
                    for &l in &sinc_lens {
                        for &(os, interp) in &sinc_variants {
                            if !variant_ok(l, os, interp) {
                                continue;
                            }
                            let mut kernels = vec![Kernel::Probe];
                            if !want_probe_only && ((q && os == 2) || (l == 8 && os == 2 && interp == Interp::Cubic) || (l == 8 && os == 1 && interp == Interp::Linear)) {
                                kernels.push(Kernel::Dispatch);
                            }
                            for kernel in kernels {
                                let ch = if chunk == 8 { 2 } else { 1 };
                                out.push(Cfg::sinc(kind, ratio, m, chunk, l, os, interp, kernel).with_channels(ch));
                            }
                        }
                    }
                }
                if !want_probe_only {
                    for kind in [Kind::FI, Kind::FO] {
                        for &d in &degrees {
                            let ch = if chunk == 8 { 2 } else { 1 };
                            out.push(Cfg::fast(kind, ratio, m, chunk, d).with_channels(ch));
                        }
                    }
                }
            }
        }
    }
    // oversampling factors that are not powers of two (even and odd; 160 is the documented
    // example value), all interpolations that split a position into sub-filter and fraction
    {
        for (k, os) in [6usize, 12, 96, 160, 5, 100].into_iter().enumerate() {
            if q && os == 100 {
                continue;
            }
            for kind in [Kind::SI, Kind::SO] {
                let interp = [Interp::Cubic, Interp::Linear, Interp::Quadratic][k % 3];
                out.push(Cfg::sinc(kind, if k % 2 == 0 { 0.8 } else { 1.6 }, 2.0, 8, 8, os, interp, Kernel::Probe).with_channels(2));
                if !want_probe_only && (os == 160 || os == 6) {
                    out.push(Cfg::sinc(kind, 1.6, 2.0, 8, 8, os, Interp::Cubic, Kernel::Dispatch).with_channels(2));
                }
            }
        }
    }
    // filter lengths that are not a multiple of 8 (every remainder), through the constructors
    // that round them up and pick the kernel for the running CPU
    if !want_probe_only {
        for l in [9usize, 10, 11, 12, 13, 14, 15, 20, 100] {
            for kind in [Kind::SI, Kind::SO] {
                if q && l > 13 && l != 100 {
                    continue;
                }
                out.push(Cfg::sinc(kind, if l % 2 == 0 { 0.8 } else { 1.6 }, 2.0, 8, l, 2, Interp::Cubic, Kernel::Dispatch).with_channels(2));
            }
        }
    }
    out
}

/// FFT configurations grouped per rate pair.
fn fft_groups(tier: Tier) -> Vec<Vec<Cfg>> {
    let q = tier == Tier::Quick;
    let maxrate = if q { 5 } else { 12 };
    let maxchunk = if q { 24 } else { 64 };
    let maxsub = if q { 2 } else { 4 };
    let mut groups = Vec::new();
    let mut pairs: Vec<(usize, usize)> = Vec::new();
    for a in 1..=maxrate {
        for b in 1..=maxrate {
            pairs.push((a, b));
        }
    }
    pairs.push((441, 480));
    pairs.push((480, 441));
    if !q {
        pairs.push((44100, 48000));
        pairs.push((48000, 44100));
        pairs.push((8000, 48000));
        pairs.push((48000, 8000));
    }
    // block sizes for which the FFT library needs scratch space (found with `hx fftscratch`: 83, 107,
    // 149, 166, 169, 173 ... have a non-empty inverse scratch buffer) plus two ordinary primes
    for (a, b) in [(1usize, 1usize), (1, 2), (2, 1), (3, 1), (1, 3)] {
        for kind in [Kind::XI, Kind::XO, Kind::XX] {
            let mut g = Vec::new();
            for chunk in [37usize, 61, 83, 107, 149, 166, 169, 173] {
                g.push(Cfg::fft(kind, a, b, chunk, 1));
            }
            groups.push(g);
        }
    }
    for (a, b) in pairs {
        for kind in [Kind::XI, Kind::XO, Kind::XX] {
            let mut g = Vec::new();
            let big = a > 100;
            let chunks: Vec<usize> = if big {
                vec![64, 200]
            } else {
                (1..=maxchunk).collect()
            };
            for chunk in chunks {
                if kind == Kind::XX {
                    g.push(Cfg::fft(kind, a, b, chunk, 1).with_channels(if chunk % 8 == 0 { 2 } else { 1 }));
                } else {
                    for sub in 1..=maxsub {
                        // chunk < sub_chunks is kept: the sub-chunk size truncates to 0 there and the
                        // smallest FFT has to be used (KF-Y)
                        g.push(Cfg::fft(kind, a, b, chunk, sub).with_channels(if chunk % 8 == 0 { 2 } else { 1 }));
                    }
                }
            }
            groups.push(g);
        }
    }
    groups
}

pub fn items(tier: Tier, id: &str) -> Vec<Item> {
    let probe_only = id == "C06";
    let mut out: Vec<Item> = async_lattice(tier, false)
        .into_iter()
        .filter(|c| {
            if probe_only {
                // C06 observes instants: sinc with the probe, fast with any degree (Linear exact)
                !(c.kind.is_sinc() && c.kernel != Kernel::Probe)
            } else {
                true
            }
        })
        .map(|c| {
            let f32_too = c.chunk == 8 && c.max_rel == 2.0 && id != "C06";
            Item { cfgs: vec![c], f32_too }
        })
        .collect();
    if id == "C06" && tier == Tier::Quick {
        // the quick lattice has Cubic and Linear only: every interpolation arm has its own copy
        // of the position/ramp stepping
        let mut cfgs = Vec::new();
        for kind in [Kind::SI, Kind::SO] {
            for interp in [Interp::Quadratic, Interp::Nearest] {
                for ratio in [0.5, 1.0, 2.0] {
                    for m in [2.0, 10.0] {
                        for chunk in [1usize, 8, 64] {
                            cfgs.push(Cfg::sinc(kind, ratio, m, chunk, 8, 2, interp, Kernel::Probe).with_channels(if chunk == 8 { 2 } else { 1 }));
                        }
                    }
                }
            }
        }
        for c in cfgs.chunks(1) {
            out.push(Item { cfgs: c.to_vec(), f32_too: false });
        }
    }
    if id == "C10" || id == "C17" || id == "C13" || id == "C04" || id == "C03" {
        // adversarial ratios: chunk/ratio lands within rounding distance of an integer, where
        // differently written formulas for the needed input size disagree
        let nd = |x: f64| f64::from_bits(x.to_bits() - 1);
        let nu = |x: f64| f64::from_bits(x.to_bits() + 1);
        let mut cfgs = Vec::new();
        for base in [1.0f64, 0.5, 2.0, 0.25] {
            for r in [nd(base), nu(base), base * (1.0 - 1e-9), base * (1.0 + 1e-9), nd(nd(base))] {
                for chunk in [64usize, 48] {
                    for l in [8usize, 64, 256] {
                        cfgs.push(Cfg::sinc(Kind::SO, r, 1.0, chunk, l, 2, Interp::Linear, Kernel::Probe));
                        cfgs.push(Cfg::sinc(Kind::SI, r, 1.0, chunk, l, 2, Interp::Linear, Kernel::Probe));
                    }
                    cfgs.push(Cfg::fast(Kind::FO, r, 1.0, chunk, Degree::Cubic));
                    cfgs.push(Cfg::fast(Kind::FI, r, 1.0, chunk, Degree::Cubic));
                }
            }
        }
        for c in cfgs.chunks(12) {
            out.push(Item { cfgs: c.to_vec(), f32_too: false });
        }
    }
    if id == "C13" || id == "C11" || id == "C03" {
        // three channels: the malformed (or masked) channel is the third one
        let mut cfgs = Vec::new();
        for kind in [Kind::SI, Kind::SO] {
            cfgs.push(Cfg::sinc(kind, 0.8, 2.0, 8, 8, 2, Interp::Cubic, Kernel::Probe).with_channels(3));
        }
        for kind in [Kind::FI, Kind::FO] {
            cfgs.push(Cfg::fast(kind, 0.8, 2.0, 8, Degree::Cubic).with_channels(3));
        }
        cfgs.push(Cfg::fft(Kind::XI, 3, 2, 10, 1).with_channels(3));
        cfgs.push(Cfg::fft(Kind::XO, 2, 3, 10, 1).with_channels(3));
        cfgs.push(Cfg::fft(Kind::XX, 2, 3, 8, 1).with_channels(3));
        for c in cfgs.chunks(1) {
            out.push(Item { cfgs: c.to_vec(), f32_too: false });
        }
    }
    if id == "C09" {
        // custom interpolators whose length is not a multiple of 8 (the built-in kernels round up,
        // the resamplers must size their storage from the length they are given)
        let mut cfgs = Vec::new();
        for kind in [Kind::SI, Kind::SO] {
            for (l, interp) in [(9usize, Interp::Cubic), (12, Interp::Quadratic), (15, Interp::Linear), (33, Interp::Nearest)] {
                cfgs.push(Cfg::sinc(kind, 0.5, 2.0, 8, l, 2, interp, Kernel::Probe).with_channels(2));
            }
        }
        for c in cfgs.chunks(4) {
            out.push(Item { cfgs: c.to_vec(), f32_too: false });
        }
    }
    if id == "C10" || id == "C03" || id == "C06" || id == "C04" {
        // custom interpolators of odd length (new_with_interpolator accepts any length): every
        // place that halves the length has to agree on the rounding
        let mut cfgs = Vec::new();
        for kind in [Kind::SI, Kind::SO] {
            for (l, interp) in [(9usize, Interp::Cubic), (15, Interp::Linear), (33, Interp::Nearest), (12, Interp::Quadratic)] {
                cfgs.push(Cfg::sinc(kind, 0.5, 2.0, 8, l, 2, interp, Kernel::Probe));
                cfgs.push(Cfg::sinc(kind, 2.0, 2.0, 5, l, 4, interp, Kernel::Probe));
            }
        }
        for c in cfgs.chunks(4) {
            out.push(Item { cfgs: c.to_vec(), f32_too: false });
        }
        // chunks of thousands of frames with the probe kernel: a shortfall of a fraction of a
        // frame per chunk in small configurations is several whole frames here
        let mut cfgs = Vec::new();
        for kind in [Kind::SI, Kind::SO] {
            for ratio in [0.5, 1.2] {
                cfgs.push(Cfg::sinc(kind, ratio, 1.25, 4096, 8, 2, Interp::Linear, Kernel::Probe));
            }
        }
        for kind in [Kind::FI, Kind::FO] {
            cfgs.push(Cfg::fast(kind, 0.5, 1.25, 4096, Degree::Linear));
        }
        for c in cfgs.chunks(2) {
            out.push(Item { cfgs: c.to_vec(), f32_too: false });
        }
    }
    if id == "C03" || id == "C04" {
        // whole-file chunks above 2^24 frames, where frame counts no longer fit an f32 (KF-X)
        let cfgs = vec![
            Cfg::fft(Kind::XI, 44100, 48000, 16_777_845, 16305),
            Cfg::fft(Kind::XI, 44100, 48000, 16_777_845, 3),
            Cfg::fft(Kind::XO, 44100, 48000, 20_000_001, 1000),
            Cfg::fft(Kind::XO, 48000, 44100, 16_777_217, 7),
            Cfg::fft(Kind::XX, 44100, 48000, 16_777_845, 1),
        ];
        for c in cfgs.chunks(1) {
            out.push(Item { cfgs: c.to_vec(), f32_too: false });
        }
    }
    if id == "C09" {
        // internal buffers of several hundred kilobytes
        let cfgs = vec![
            Cfg::fast(Kind::FO, 1.0, 8.0, 4096, Degree::Cubic).with_channels(2),
            Cfg::fast(Kind::FI, 0.5, 1.0, 32768, Degree::Linear),
            Cfg::sinc(Kind::SO, 1.0, 8.0, 4096, 64, 16, Interp::Linear, Kernel::Dispatch),
            Cfg::sinc(Kind::SI, 0.5, 1.0, 32768, 64, 16, Interp::Linear, Kernel::Dispatch),
        ];
        for c in cfgs.chunks(1) {
            out.push(Item { cfgs: c.to_vec(), f32_too: false });
        }
    }
    if id == "C09" || id == "C11" || id == "C13" {
        // many channels (24), where per-channel bookkeeping sized for "a few" runs out
        let cfgs = vec![
            Cfg::sinc(Kind::SI, 0.8, 2.0, 8, 8, 2, Interp::Cubic, Kernel::Dispatch).with_channels(24),
            Cfg::sinc(Kind::SO, 0.8, 2.0, 8, 8, 2, Interp::Linear, Kernel::Dispatch).with_channels(24),
            Cfg::fast(Kind::FI, 0.75, 1.5, 8, Degree::Cubic).with_channels(24),
            Cfg::fast(Kind::FO, 0.75, 1.5, 8, Degree::Cubic).with_channels(24),
            Cfg::fft(Kind::XI, 3, 2, 12, 2).with_channels(24),
            Cfg::fft(Kind::XO, 2, 3, 12, 2).with_channels(24),
            Cfg::fft(Kind::XX, 3, 2, 12, 1).with_channels(24),
        ];
        for c in cfgs.chunks(1) {
            out.push(Item { cfgs: c.to_vec(), f32_too: false });
        }
    }
    if id == "C09" || ((id == "C10" || id == "C13") && tier == Tier::Thorough) {
        // a few large configurations: chunks of thousands of frames, eight channels, long filters,
        // FFT blocks of thousands of points (sizes that small configurations never reach)
        let mut cfgs = Vec::new();
        for kind in [Kind::SI, Kind::SO] {
            cfgs.push(Cfg::sinc(kind, R_147_160, 1.25, 4096, 256, 128, Interp::Cubic, Kernel::Dispatch).with_channels(2));
            cfgs.push(Cfg::sinc(kind, 1.2, 2.0, 1000, 64, 256, Interp::Linear, Kernel::Dispatch).with_channels(8));
        }
        for kind in [Kind::FI, Kind::FO] {
            cfgs.push(Cfg::fast(kind, R_147_160, 1.25, 4096, Degree::Septic).with_channels(8));
        }
        for kind in [Kind::XI, Kind::XO, Kind::XX] {
            cfgs.push(Cfg::fft(kind, 44100, 48000, 4096, 1).with_channels(2));
            cfgs.push(Cfg::fft(kind, 48000, 44100, 1024, if kind == Kind::XX { 1 } else { 2 }).with_channels(8));
        }
        for c in cfgs.chunks(1) {
            out.push(Item { cfgs: c.to_vec(), f32_too: false });
        }
    }
    if id == "C17" || id == "C03" || id == "C04" {
        // large chunks: positions of several thousand frames times a large oversampling factor,
        // where arithmetic done in f32 instead of f64 loses the fractional position
        let mut cfgs = Vec::new();
        for kind in [Kind::SI, Kind::SO] {
            for interp in Interp::ALL {
                for ratio in [0.5, R_147_160, 1.2] {
                    let mut c = Cfg::sinc(kind, ratio, 1.25, 4096, 16, 256, interp, Kernel::Dispatch);
                    c.channels = 1;
                    cfgs.push(c);
                }
            }
        }
        for kind in [Kind::FI, Kind::FO] {
            for d in Degree::ALL {
                cfgs.push(Cfg::fast(kind, R_147_160, 1.25, 4096, d));
            }
        }
        if id != "C17" {
            // position inside one chunk times the oversampling factor beyond 2^31 (and 2^32):
            // chunks of tens of thousands of frames on a very fine sub-filter grid
            for kind in [Kind::SI, Kind::SO] {
                for (interp, chunk, os) in [(Interp::Linear, 70_000usize, 32_768usize), (Interp::Cubic, 80_000, 32_768), (Interp::Quadratic, 140_000, 32_768), (Interp::Nearest, 70_000, 65_536)] {
                    let mut c = Cfg::sinc(kind, 0.8, 1.1, chunk, 16, os, interp, Kernel::Dispatch);
                    c.channels = 1;
                    cfgs.push(c);
                }
            }
        }
        for c in cfgs.chunks(4) {
            out.push(Item { cfgs: c.to_vec(), f32_too: false });
        }
    }
    if id == "C03" || id == "C04" || id == "C09" || id == "C10" {
        // narrow adjustment ranges and every small chunk size: internal buffer lengths are
        // truncated products of the range and the needed input, so whether a buffer is one frame
        // short depends on the fractional part of max_relative_ratio * ceil(chunk / ratio)
        let ms: Vec<f64> = if tier == Tier::Quick { vec![1.1] } else { vec![1.02, 1.07, 1.1, 1.2] };
        let mut chunks: Vec<usize> = (1..=16).collect();
        chunks.extend([480, 1024]);
        for &m in &ms {
            for ratio in [0.5, 1.0, 2.0] {
                let mut cfgs = Vec::new();
                for &chunk in &chunks {
                    for kind in [Kind::SI, Kind::SO] {
                        cfgs.push(Cfg::sinc(kind, ratio, m, chunk, 8, 2, Interp::Cubic, Kernel::Probe));
                    }
                    for kind in [Kind::FI, Kind::FO] {
                        for d in [Degree::Cubic, Degree::Septic] {
                            cfgs.push(Cfg::fast(kind, ratio, m, chunk, d));
                        }
                    }
                }
                for c in cfgs.chunks(18) {
                    out.push(Item { cfgs: c.to_vec(), f32_too: false });
                }
            }
        }
    }
    if id == "C10" || id == "C04" || id == "C03" || id == "C13" {
        // chunk / ratio (fixed output) or chunk * ratio (fixed input) is a whole number: two
        // algebraically equal ways of writing a size - chunk / ratio and chunk * (1 / ratio), or
        // a * r and a / (1 / r) - differ by one unit in the last place exactly there, and the
        // ceil / truncation that follows turns that into one frame
        let pairs: [(usize, f64); 37] = [
            (480, 0.96), (480, 0.48), (480, 0.24), (480, 1.92), (441, 0.91875), (882, 0.91875), (441, 0.459375),
            (7, 0.7), (3, 0.3), (6, 0.6), (12, 1.2), (11, 1.1), (9, 0.9), (7, 0.35), (7, 1.4), (11, 2.2), (9, 0.45),
            (11, 0.55), (13, 0.65), (13, 1.3), (17, 1.7), (17, 0.85), (19, 1.9), (19, 0.95),
            (480, 0.91875), (10, 0.7), (10, 0.3), (20, 0.35), (5, 1.4), (5, 2.2), (20, 0.45), (10, 1.1), (10, 0.9), (240, 1.8375),
            (21, 1.4), (5, 5.0 / 23.0), (23, 5.0 / 23.0),
        ];
        let mut cfgs = Vec::new();
        for (chunk, ratio) in pairs {
            for kind in [Kind::SI, Kind::SO] {
                cfgs.push(Cfg::sinc(kind, ratio, 2.0, chunk, 8, 2, Interp::Linear, Kernel::Probe));
            }
            for kind in [Kind::FI, Kind::FO] {
                cfgs.push(Cfg::fast(kind, ratio, 2.0, chunk, Degree::Cubic));
            }
        }
        for c in cfgs.chunks(8) {
            out.push(Item { cfgs: c.to_vec(), f32_too: false });
        }
    }
    if id == "C04" || id == "C03" {
        // sweep of (chunk, ratio, max relative ratio) triples for the fixed-input types: sizes are
        // products of three factors, and (chunk * ratio) * max and chunk * (ratio * max) differ by
        // one frame for about one triple in a hundred. These configurations (max relative ratio 3
        // or 5, which the main lattice does not use) get a light specification: ratio alphabet,
        // one deviation, four default steps
        for ratio in [1.2, 0.96, 0.91875, 0.7, 1.1] {
            for m in [3.0, 5.0] {
                let mut cfgs = Vec::new();
                for chunk in 1..=64usize {
                    cfgs.push(Cfg::fast(Kind::FI, ratio, m, chunk, Degree::Linear));
                    cfgs.push(Cfg::sinc(Kind::SI, ratio, m, chunk, 8, 2, Interp::Linear, Kernel::Probe));
                }
                out.push(Item { cfgs, f32_too: false });
            }
        }
    }
    if id == "C04" || id == "C03" || id == "C06" {
        // wide ranges around a ratio with a whole-number step (1.0, 0.5): a call at that ratio
        // directly followed by one at more than ten times the ratio (margins of "10 frames")
        let mut cfgs = Vec::new();
        for chunk in [5usize, 8, 64] {
            for (ratio, m) in [(1.0, 16.0), (1.0, 12.0), (0.5, 32.0)] {
                cfgs.push(Cfg::fast(Kind::FI, ratio, m, chunk, Degree::Cubic));
                cfgs.push(Cfg::fast(Kind::FO, ratio, m, chunk, Degree::Linear));
                cfgs.push(Cfg::sinc(Kind::SI, ratio, m, chunk, 8, 2, Interp::Linear, Kernel::Probe));
                cfgs.push(Cfg::sinc(Kind::SO, ratio, m, chunk, 8, 2, Interp::Linear, Kernel::Probe));
            }
        }
        for c in cfgs.chunks(4) {
            out.push(Item { cfgs: c.to_vec(), f32_too: false });
        }
    }
    if id == "C09" || id == "C03" {
        // every kernel a caller can select explicitly (new_with_interpolator), not only the one
        // the run-time dispatch picks on this machine
        let mut cfgs = Vec::new();
        for kind in [Kind::SI, Kind::SO] {
            for kernel in [Kernel::Scalar, Kernel::Sse, Kernel::Avx] {
                for (os, interp) in [(2usize, Interp::Cubic), (4, Interp::Linear), (2, Interp::Nearest)] {
                    cfgs.push(Cfg::sinc(kind, 0.8, 2.0, 8, 8, os, interp, kernel).with_channels(2));
                }
            }
        }
        for c in cfgs.chunks(3) {
            out.push(Item { cfgs: c.to_vec(), f32_too: true });
        }
    }
    if id == "C17" {
        // long filters with oversampling factors that are not powers of two (160 is the
        // ratio-matched choice for 44.1 -> 48 kHz): table positions x/factor are not exact in
        // binary, so a table built with f32 arithmetic of the wrong shape loses accuracy here
        let mut cfgs = Vec::new();
        for kind in [Kind::SI, Kind::SO] {
            for (l, os, interp) in [(1024usize, 160usize, Interp::Nearest), (1024, 100, Interp::Linear), (512, 160, Interp::Cubic), (256, 3, Interp::Quadratic)] {
                let mut c = Cfg::sinc(kind, 48000.0 / 44100.0, 1.0, 1024, l, os, interp, Kernel::Dispatch);
                c.channels = 1;
                cfgs.push(c);
            }
        }
        // filters of thousands of taps on every kernel a caller can select explicitly (blocked
        // or unrolled summation loops have their second block only here)
        for kind in [Kind::SI, Kind::SO] {
            for (l, interp, kernel) in [(2048usize, Interp::Linear, Kernel::Sse), (2048, Interp::Cubic, Kernel::Avx), (2560, Interp::Nearest, Kernel::Scalar), (1536, Interp::Quadratic, Kernel::Sse)] {
                let mut c = Cfg::sinc(kind, 1.2, 1.0, 256, l, 2, interp, kernel);
                c.channels = 1;
                cfgs.push(c);
            }
        }
        for c in cfgs.chunks(1) {
            out.push(Item { cfgs: c.to_vec(), f32_too: false });
        }
        // windows other than the default with long tables and power-of-two oversampling
        let mut cfgs = Vec::new();
        for (w, l, os) in [
            (rubato::WindowFunction::BlackmanHarris, 256usize, 256usize),
            (rubato::WindowFunction::Hann2, 256, 1024),
            (rubato::WindowFunction::Blackman2, 128, 2048),
            (rubato::WindowFunction::Hann, 512, 128),
            (rubato::WindowFunction::Blackman, 256, 512),
        ] {
            for kind in [Kind::SI, Kind::SO] {
                let mut c = Cfg::sinc(kind, 48000.0 / 44100.0, 1.0, 1024, l, os, Interp::Cubic, Kernel::Dispatch);
                c.window = w;
                c.channels = 1;
                cfgs.push(c);
            }
        }
        for c in cfgs.chunks(1) {
            out.push(Item { cfgs: c.to_vec(), f32_too: false });
        }
        // FFT blocks of several thousand points: filter construction and normalisation carried
        // out in the sample type
        let mut cfgs = Vec::new();
        // (and of tens of thousands: whatever is dimensioned in bytes depends on the sample type)
        for (a, b, chunk) in [(44100usize, 48000usize, 4096usize), (48000, 44100, 4096), (44100, 192000, 2048), (48000, 16000, 6000), (44100, 48000, 18816), (48000, 44100, 40000)] {
            for kind in [Kind::XI, Kind::XO, Kind::XX] {
                cfgs.push(Cfg::fft(kind, a, b, chunk, 1));
            }
        }
        for c in cfgs.chunks(1) {
            out.push(Item { cfgs: c.to_vec(), f32_too: false });
        }
    }
    if id != "C06" {
        for g in fft_groups(tier) {
            out.push(Item { cfgs: g, f32_too: tier == Tier::Thorough });
        }
    }
    out
}

pub fn spec_for(id: &str, tier: Tier, cfg: &Cfg) -> Spec {
    let q = tier == Tier::Quick;
    let alpha = match id {
        "C06" => Alpha::RatioRej,
        "C13" => Alpha::FullBad,
        "C09" => Alpha::FullBad,
        "C10" => Alpha::FullFewBad,
        _ => Alpha::Full,
    };
    // Non-closing configurations (orbits that never repeat) are limited by the horizon; they get
    // bound 1 in the thorough tier too, closing ones bound 2.
    let closing = closes(cfg);
    // bound 2 where orbits close and chunks are small (both tiers); in the quick tier the second
    // layer offers the ratio/chunk/reset alphabet only
    // thorough: a third deviation on the smallest closing configurations (1-frame chunks, short
    // filters), with the ratio/chunk/reset alphabet in the third layer
    let bound = if !q && closing && cfg.chunk == 1 && cfg.filter_len() <= 8 && cfg.max_rel <= 2.0 {
        3
    } else if closing && cfg.chunk <= 8 {
        2
    } else {
        1
    };
    let alpha_deep = if id == "C06" { Alpha::RatioRej } else if q { Alpha::Ratio } else { alpha };
    let big = cfg.kind.is_async() && cfg.chunk >= 200;
    let horizon = if big {
        [8, 4, 2, 2]
    } else if q {
        [48, 24, 12, 8]
    } else {
        [128, 32, 12, 8]
    };
    // chunks above 2^24 frames: every call moves hundreds of megabytes, so three default calls and
    // (thorough) one deviation
    let huge = cfg.chunk >= (1 << 24);
    let horizon = if huge { [3, 1, 1, 1] } else { horizon };
    let bound = if huge { if q { 0 } else { 1 } } else { bound };
    let wide = cfg.kind.is_async() && (cfg.max_rel == 12.0 || cfg.max_rel == 16.0 || cfg.max_rel == 32.0);
    // FFT blocks of tens of thousands of points: a few calls, the ratio alphabet
    let big_fft = cfg.kind.is_fft() && cfg.chunk >= 10_000 && !huge;
    let horizon = if big_fft { [6, 2, 1, 1] } else { horizon };
    let light = cfg.kind.is_async() && (cfg.max_rel == 3.0 || cfg.max_rel == 5.0 || wide);
    let horizon = if light { [4, 2, 2, 2] } else { horizon };
    let bound = if wide { 2 } else if light { 1 } else { bound };
    let alpha = if big || light || big_fft { Alpha::Ratio } else { alpha };
    let alpha_deep = if big || light { Alpha::Ratio } else { alpha_deep };
    let signal = if id == "C10" || id == "C17" {
        Signal::Noise
    } else if cfg.kind.is_sinc() && cfg.kernel != Kernel::Probe {
        Signal::Noise
    } else if cfg.kind.is_fft() {
        Signal::Noise
    } else {
        Signal::Index
    };
    Spec {
        cfg: cfg.clone(),
        alpha,
        alpha_deep,
        bound,
        horizon,
        props: Props::only(id),
        signal,
        max_states: if q { 30_000 } else { 300_000 },
        // operations applied (not followed) in the states of the last layer, so that the
        // property's own operation is tried in every explored state
        final_layer: match id {
            "C10" => vec![Op::Z],
            "C13" => {
                use crate::ops::Bad;
                let last = (cfg.channels - 1) as u8;
                vec![
                    Op::Bad(Bad::InChans(1)),
                    Op::Bad(Bad::OutChans(i8::MIN)),
                    Op::Bad(Bad::MaskLen(1)),
                    Op::Bad(Bad::InShort(0, 1)),
                    Op::Bad(Bad::OutShort(last, 1)),
                    Op::Bad(Bad::OutShort(0, 3)),
                ]
            }
            _ => vec![],
        },
        final_layer_first_only: id == "C13",
        sample_every: if id == "C10" { if q { 48 } else { 24 } } else { 0 },
    }
}

/// Do all reachable 1/ratio steps have short binary expansions (so that orbits close)?
pub fn closes(cfg: &Cfg) -> bool {
    if cfg.kind.is_fft() {
        return true;
    }
    let dy = |x: f64| {
        let y = x * 1024.0;
        y == y.floor()
    };
    crate::explore::rel_values(cfg.max_rel)
        .iter()
        .all(|x| dy(1.0 / (cfg.ratio * x)))
}

fn outcome_json(cfg: &Cfg, o: &Outcome, ty: &str) -> Value {
    json!({
        "label": format!("{} {}", cfg.short(), ty),
        "states": o.states, "transitions": o.transitions,
        "horizon_caps": o.horizon_caps, "closed": o.closed,
        "state_caps": if o.state_cap_hit { 1 } else { 0 },
        "terminal": o.terminal, "effective_deviations": o.effective_deviations,
        "found_overflow": o.found_overflow,
        "outcomes": o.outcomes.iter().map(|h| format!("{:x}", h)).collect::<Vec<_>>(),
        "found": o.found.iter().map(|f| json!({
            "prop": f.prop, "sig": f.sig, "detail": f.detail,
            "cfg": cfg.to_json(), "history": history_text(&f.history), "sample_type": ty,
        })).collect::<Vec<_>>(),
        "samples": o.samples.iter().map(|s| json!({"cfg": cfg.short(), "history": s})).collect::<Vec<_>>(),
    })
}

/// Resamplers with zero channels (the constructors accept the count): every documented
/// operation on empty channel lists, compared with a one-channel twin - same Ok/Err class, same
/// frame counts, no panic. (The engines index channels freely, so this degenerate width gets a
/// scripted walk of its own instead of a place in the lattices.)
pub fn zero_channel_item(prop: &'static str) -> Result<Value, String> {
    use std::panic::{catch_unwind, AssertUnwindSafe};
    crate::run::install_panic_hook();
    let mut cfgs: Vec<Cfg> = vec![
        Cfg::sinc(Kind::SI, 0.8, 2.0, 8, 8, 2, Interp::Cubic, Kernel::Dispatch),
        Cfg::sinc(Kind::SO, 0.8, 2.0, 8, 8, 2, Interp::Quadratic, Kernel::Dispatch),
        Cfg::sinc(Kind::SO, 1.2, 2.0, 64, 16, 4, Interp::Linear, Kernel::Scalar),
        Cfg::fast(Kind::FI, 0.8, 2.0, 8, Degree::Cubic),
        Cfg::fast(Kind::FI, 48000.0 / 44100.0, 1.1, 1024, Degree::Septic),
        Cfg::fast(Kind::FO, 0.8, 2.0, 8, Degree::Linear),
        Cfg::fft(Kind::XI, 3, 2, 10, 2),
        Cfg::fft(Kind::XO, 2, 3, 10, 2),
        Cfg::fft(Kind::XX, 3, 2, 12, 1),
    ];
    cfgs.extend(cfgs.clone().into_iter().map(|mut c| {
        c.chunk = 1;
        c
    }));
    let ops: Vec<&str> = vec!["P", "P", "rel_ramp", "P", "abs_step", "P", "chunk", "P", "W", "WP", "PP", "Z", "P", "bad_rel", "bad_chunk", "W"];
    let (mut states, mut transitions) = (0u64, 0u64);
    let mut found: Vec<Value> = Vec::new();
    let mut outcomes: std::collections::BTreeSet<String> = Default::default();
    for cfg in &cfgs {
        let mut step = |r: &mut crate::any::Any<f64>, nch: usize, op: &str| -> String {
            let res = catch_unwind(AssertUnwindSafe(|| -> String {
                let show = |x: rubato::ResampleResult<(usize, usize)>| match x {
                    Ok((i, o)) => format!("Ok({},{})", i, o),
                    Err(e) => format!("Err({})", crate::run::ErrInfo::from(&e).variant),
                };
                let unit = |x: rubato::ResampleResult<()>| match x {
                    Ok(()) => "Ok".to_string(),
                    Err(e) => format!("Err({})", crate::run::ErrInfo::from(&e).variant),
                };
                match op {
                    "P" => {
                        let inp: Vec<Vec<f64>> = vec![vec![0.25; r.input_frames_next()]; nch];
                        let mut out: Vec<Vec<f64>> = vec![vec![0.0; r.output_frames_next()]; nch];
                        show(r.process_into_buffer(&inp, &mut out, None))
                    }
                    "W" => {
                        let inp: Vec<Vec<f64>> = vec![vec![0.25; r.input_frames_next()]; nch];
                        match r.process(&inp, None) {
                            Ok(v) => format!("Ok({} channels)", v.len()),
                            Err(e) => format!("Err({})", crate::run::ErrInfo::from(&e).variant),
                        }
                    }
                    "WP" => match r.process_partial(None::<&[Vec<f64>]>, None) {
                        Ok(v) => format!("Ok({} channels)", v.len()),
                        Err(e) => format!("Err({})", crate::run::ErrInfo::from(&e).variant),
                    },
                    "PP" => {
                        let inp: Vec<Vec<f64>> = vec![vec![0.25; r.input_frames_next() / 2]; nch];
                        let mut out: Vec<Vec<f64>> = vec![vec![0.0; r.output_frames_next()]; nch];
                        show(r.process_partial_into_buffer(Some(&inp), &mut out, None))
                    }
                    "rel_ramp" => unit(r.set_resample_ratio_relative(1.5, true)),
                    "abs_step" => unit(r.set_resample_ratio(cfg.nominal_ratio() * 0.75, false)),
                    "bad_rel" => unit(r.set_resample_ratio_relative(2.5, false)),
                    "chunk" => unit(r.set_chunk_size((cfg.chunk / 2).max(1))),
                    "bad_chunk" => unit(r.set_chunk_size(cfg.chunk + 1)),
                    "Z" => {
                        r.reset();
                        "Ok".to_string()
                    }
                    _ => "?".to_string(),
                }
            }));
            match res {
                Ok(t) => t,
                Err(_) => format!("PANIC({})", crate::run::classify(&crate::run::take_panic())),
            }
        };
        let zero = cfg.clone().with_channels(0);
        let built = catch_unwind(AssertUnwindSafe(|| (zero.build::<f64>(), cfg.build::<f64>())));
        let (mut rz, mut r1) = match built {
            Ok((Ok(a), Ok(b))) => (a, b),
            Ok((Err(e), _)) | Ok((_, Err(e))) => {
                // a constructor that refuses zero channels is fine; one that panics is not
                if e.contains("panicked") {
                    found.push(json!({"prop": prop, "sig": "zero-channels:constructor-panics", "detail": e, "cfg": zero.to_json(), "history": "", "sample_type": "f64", "point": "zero channels"}));
                }
                continue;
            }
            Err(_) => {
                found.push(json!({"prop": prop, "sig": "zero-channels:constructor-panics", "detail": crate::run::take_panic(), "cfg": zero.to_json(), "history": "", "sample_type": "f64", "point": "zero channels"}));
                continue;
            }
        };
        states += 1;
        let mut hist: Vec<String> = Vec::new();
        for op in &ops {
            let (a, b) = (step(&mut rz, 0, op), step(&mut r1, 1, op));
            hist.push(op.to_string());
            transitions += 2;
            outcomes.insert(format!("{}:{}:{}", cfg.kind.name(), op, a.split('(').next().unwrap_or("")));
            let same = a == b || (a.starts_with("Ok(") && b.starts_with("Ok(") && a.contains("channels"));
            if !same && found.len() < 40 {
                found.push(json!({"prop": prop, "sig": if a.starts_with("PANIC") { "zero-channels:panic" } else { "zero-channels:differs-from-one-channel-twin" },
                    "detail": format!("after [{}]: with zero channels {}, with one channel {}", hist.join(" "), a, b), "cfg": zero.to_json(), "history": "", "sample_type": "f64", "point": "zero channels"}));
            }
            if a.starts_with("PANIC") {
                break;
            }
        }
    }
    Ok(json!({
        "label": "zero channels", "states": states, "transitions": transitions,
        "outcomes": outcomes.iter().collect::<Vec<_>>(), "found": found,
        "samples": [{"zero_channels": "18 configurations (all seven types, small and 1-frame chunks) x 16 operations (process_into_buffer, process, process_partial, both setters in and out of range, chunk size, reset) on empty channel lists, compared with a one-channel twin"}],
    }))
}

/// Ratios of C10's chunk-size sweep (decimal fractions that are not exact in binary).
const C10_SWEEP: [f64; 8] = [0.7, 1.4, 1.15, 0.35, 0.9, 1.1, 13.0 / 3.0, 44100.0 / 48000.0];

/// C10: reset() in the fresh state and after one call, for every chunk size up to the limit:
/// the constructor and reset() size their buffers with formulas that are written twice, and
/// two ways of rounding the same quotient differ only at numeric coincidences between chunk
/// size and ratio.
fn c10_sweep_item(tier: Tier, ratio: f64, journal: Option<&JournalFile>) -> Result<Value, String> {
    let max = if tier == Tier::Quick { 800 } else { 6000 };
    let (mut states, mut transitions) = (0u64, 0u64);
    let mut found: Vec<Value> = Vec::new();
    for chunk in 1..=max {
        for cfg in [
            Cfg::fast(Kind::FI, ratio, 1.5, chunk, Degree::Linear),
            Cfg::fast(Kind::FO, ratio, 1.5, chunk, Degree::Linear),
            Cfg::sinc(Kind::SI, ratio, 1.5, chunk, 8, 2, Interp::Nearest, Kernel::Scalar),
            Cfg::sinc(Kind::SO, ratio, 1.5, chunk, 8, 2, Interp::Nearest, Kernel::Scalar),
        ] {
            for hist in [vec![Op::Z], vec![Op::P, Op::Z], vec![Op::R(1.5, true), Op::Z]] {
                if hist.len() > 1 && chunk % 7 != 0 && tier == Tier::Quick {
                    continue;
                }
                if let Some(j) = journal {
                    j.write(&cfg.to_json(), &history_text(&hist));
                }
                let mut t = Tracked::<f64>::new(&cfg, Signal::Noise, Props::only("C10"))?;
                states += 1;
                for (i, op) in hist.iter().enumerate() {
                    let (_, viols) = t.step(*op, true);
                    transitions += 1;
                    for v in viols {
                        if v.prop == "C10" && found.len() < 40 {
                            found.push(json!({"prop": "C10", "sig": v.sig, "detail": v.detail, "cfg": cfg.to_json(), "history": history_text(&hist[..=i]), "sample_type": "f64"}));
                        }
                    }
                }
            }
        }
    }
    // silence written as -0.0 (all seven types, every interpolation): a history that compares
    // equal to zero everywhere is still a history, after reset() no bit of it may be left
    if ratio == C10_SWEEP[0] {
        let mut cfgs: Vec<Cfg> = Vec::new();
        for chunk in [1usize, 8, 64] {
            for d in Degree::ALL {
                cfgs.push(Cfg::fast(Kind::FI, 0.8, 2.0, chunk, d).with_channels(2));
                cfgs.push(Cfg::fast(Kind::FO, 1.3, 2.0, chunk, d).with_channels(2));
            }
            for interp in [Interp::Nearest, Interp::Linear, Interp::Quadratic, Interp::Cubic] {
                cfgs.push(Cfg::sinc(Kind::SI, 0.8, 2.0, chunk, 8, 2, interp, Kernel::Dispatch).with_channels(2));
                cfgs.push(Cfg::sinc(Kind::SO, 1.3, 2.0, chunk, 8, 2, interp, Kernel::Dispatch).with_channels(2));
            }
            cfgs.push(Cfg::fft(Kind::XI, 3, 2, 6 * chunk, 2).with_channels(2));
            cfgs.push(Cfg::fft(Kind::XO, 2, 3, 6 * chunk, 2).with_channels(2));
            cfgs.push(Cfg::fft(Kind::XX, 3, 2, 6 * chunk, 1).with_channels(2));
        }
        for cfg in cfgs {
            for hist in [vec![Op::P, Op::P, Op::Z], vec![Op::P, Op::PM(1, false), Op::P, Op::Z, Op::P]] {
                let mut t = Tracked::<f64>::new(&cfg, Signal::NegZero, Props::only("C10"))?;
                states += 1;
                for (i, op) in hist.iter().enumerate() {
                    let (_, viols) = t.step(*op, true);
                    transitions += 1;
                    for v in viols {
                        if v.prop == "C10" && found.len() < 40 {
                            found.push(json!({"prop": "C10", "sig": v.sig, "detail": format!("{} (input: silence written as -0.0)", v.detail), "cfg": cfg.to_json(), "history": history_text(&hist[..=i]), "sample_type": "f64-negzero"}));
                        }
                    }
                }
            }
        }
    }
    Ok(json!({
        "label": format!("reset sweep ratio {:?}", ratio), "states": states, "transitions": transitions,
        "outcomes": [format!("sweep:{:?}", ratio)], "found": found,
        "samples": [{"sweep": format!("ratio {:?}, chunk 1..={}, four asynchronous types, reset in the fresh state / after one call / with a ramp pending", ratio, max)}],
    }))
}

/// C09: short cycles of operations repeated many times (bookkeeping that grows by one entry per
/// cycle - a list that a reset forgets to clear, a counter that only ever rises - outgrows what
/// was reserved at construction only after several rounds; two or three deviations never get
/// there). Every call of every round is monitored for heap traffic.
fn cycles_item(journal: Option<&JournalFile>) -> Result<Value, String> {
    let mut cfgs: Vec<Cfg> = Vec::new();
    for ch in [2usize, 3] {
        cfgs.push(Cfg::sinc(Kind::SI, 0.8, 2.0, 8, 8, 2, Interp::Cubic, Kernel::Dispatch).with_channels(ch));
        cfgs.push(Cfg::sinc(Kind::SO, 0.8, 2.0, 8, 8, 2, Interp::Linear, Kernel::Dispatch).with_channels(ch));
        cfgs.push(Cfg::fast(Kind::FI, 0.8, 2.0, 8, Degree::Cubic).with_channels(ch));
        cfgs.push(Cfg::fast(Kind::FO, 0.8, 2.0, 8, Degree::Cubic).with_channels(ch));
        cfgs.push(Cfg::fft(Kind::XI, 3, 2, 10, 2).with_channels(ch));
        cfgs.push(Cfg::fft(Kind::XO, 2, 3, 10, 2).with_channels(ch));
        cfgs.push(Cfg::fft(Kind::XX, 3, 2, 12, 1).with_channels(ch));
    }
    let rounds = 12;
    let (mut states, mut transitions) = (0u64, 0u64);
    let mut found: Vec<Value> = Vec::new();
    let mut outcomes: std::collections::BTreeSet<String> = Default::default();
    for cfg in &cfgs {
        let all = (1u32 << cfg.channels) - 1;
        let mut cycles: Vec<Vec<Op>> = vec![
            vec![Op::PM(all & !2, true), Op::Z],
            vec![Op::PM(0, true), Op::Z],
            vec![Op::PM(1, false), Op::Z, Op::P],
            vec![Op::PM(all & !1, true), Op::P],
            vec![Op::PM(1, true), Op::PM(all & !1, false)],
            vec![Op::PP(Some(1)), Op::Z],
            vec![Op::PP(None), Op::P],
            vec![Op::P, Op::Z],
            vec![Op::Bad(crate::ops::Bad::InShort(0, 1)), Op::P],
            vec![Op::Bad(crate::ops::Bad::MaskLen(1)), Op::PM(1, true), Op::Z],
        ];
        if cfg.kind.is_async() {
            cycles.push(vec![Op::R(2.0, true), Op::P, Op::Z]);
            cycles.push(vec![Op::R(2.0, true), Op::R(0.5, false), Op::P]);
            cycles.push(vec![Op::R(0.5, true), Op::PM(1, true), Op::R(1.0, false), Op::P]);
        }
        if cfg.kind.is_sinc() {
            cycles.push(vec![Op::C(3), Op::P, Op::C(8), Op::P]);
            cycles.push(vec![Op::C(1), Op::Z, Op::P]);
        }
        for cyc in &cycles {
            let mut t = Tracked::<f64>::new(cfg, Signal::Noise, Props::only("C09"))?;
            let mut hist: Vec<Op> = Vec::new();
            states += 1;
            'rounds: for _ in 0..rounds {
                for op in cyc {
                    if let Some(j) = journal {
                        let mut h = hist.clone();
                        h.push(*op);
                        j.write(&cfg.to_json(), &history_text(&h));
                    }
                    let (obs, viols) = t.step(*op, true);
                    hist.push(*op);
                    transitions += 1;
                    outcomes.insert(format!("{}:{}:{}", cfg.kind.name(), op.text().split('(').next().unwrap_or(""), obs.res.text().split('(').next().unwrap_or("")));
                    for v in viols {
                        if v.prop == "C09" && found.len() < 40 {
                            found.push(json!({"prop": "C09", "sig": v.sig, "detail": v.detail, "cfg": cfg.to_json(), "history": history_text(&hist), "sample_type": "f64"}));
                        }
                    }
                    if t.dead() || !found.is_empty() && found.len() % 4 == 0 {
                        break 'rounds;
                    }
                }
            }
        }
    }
    // the usual deployment: built on a setup thread, processed on another one (whatever was
    // reserved per thread at construction is not there); with and without a first call on the
    // constructing thread
    for cfg in &cfgs {
        for warm in [false, true] {
            let mut t = Tracked::<f64>::new(cfg, Signal::Noise, Props::only("C09"))?;
            let mut hist: Vec<Op> = Vec::new();
            if warm {
                let _ = t.step(Op::P, true);
                hist.push(Op::P);
            }
            states += 1;
            let all = (1u32 << cfg.channels) - 1;
            let script = vec![Op::P, Op::PM(all & !1, true), Op::P, Op::Z, Op::P, Op::PP(Some(1)), Op::P];
            let cfgj = cfg.to_json();
            let h0 = hist.clone();
            let res = std::thread::spawn(move || {
                crate::run::install_panic_hook();
                let mut out: Vec<(Vec<Op>, String, String)> = Vec::new();
                let mut hist = h0;
                let mut n = 0u64;
                for op in script {
                    let (_, viols) = t.step(op, true);
                    hist.push(op);
                    n += 1;
                    for v in viols {
                        if v.prop == "C09" {
                            out.push((hist.clone(), v.sig, v.detail));
                        }
                    }
                    if t.dead() {
                        break;
                    }
                }
                (out, n)
            })
            .join()
            .map_err(|_| "migration thread panicked".to_string())?;
            transitions += res.1;
            outcomes.insert(format!("{}:migrated:{}", cfg.kind.name(), if res.0.is_empty() { "clean" } else { "heap" }));
            for (h, sig, detail) in res.0 {
                if found.len() < 60 {
                    found.push(json!({"prop": "C09", "sig": format!("{}:after-moving-to-another-thread", sig), "detail": format!("{} (the resampler was built{} on another thread)", detail, if warm { " and called once" } else { "" }), "cfg": cfgj.clone(), "history": history_text(&h), "sample_type": "f64", "point": format!("migrated:{}", if warm { 1 } else { 0 })}));
                }
            }
        }
    }
    // more channels than any fixed-size per-call bookkeeping is likely to provide for (33, 48, 72):
    // a plain walk with the heap counted around every call (the engines keep channel sets in
    // 32-bit words, so this width is walked directly on the resampler)
    for nch in [33usize, 48, 72] {
        for cfg in [
            Cfg::sinc(Kind::SI, 48000.0 / 44100.0, 2.0, 16, 8, 2, Interp::Cubic, Kernel::Dispatch).with_channels(nch),
            Cfg::sinc(Kind::SO, 48000.0 / 44100.0, 2.0, 16, 8, 2, Interp::Cubic, Kernel::Dispatch).with_channels(nch),
            Cfg::sinc(Kind::SO, 0.8, 2.0, 16, 8, 2, Interp::Nearest, Kernel::Dispatch).with_channels(nch),
            Cfg::fast(Kind::FI, 0.8, 2.0, 16, Degree::Cubic).with_channels(nch),
            Cfg::fast(Kind::FO, 0.8, 2.0, 16, Degree::Septic).with_channels(nch),
            Cfg::fft(Kind::XI, 3, 2, 12, 2).with_channels(nch),
            Cfg::fft(Kind::XO, 2, 3, 12, 2).with_channels(nch),
            Cfg::fft(Kind::XX, 3, 2, 12, 1).with_channels(nch),
        ] {
            let mut r = cfg.build::<f64>()?;
            let inp: Vec<Vec<f64>> = r.input_buffer_allocate(true);
            let mut out: Vec<Vec<f64>> = r.output_buffer_allocate(true);
            let mask: Vec<bool> = (0..nch).map(|c| c % 3 != 1).collect();
            states += 1;
            for step in 0..8usize {
                if step == 3 && cfg.kind.is_async() {
                    let _ = r.set_resample_ratio_relative(1.5, true);
                }
                if step == 5 {
                    r.reset();
                }
                let m: Option<&[bool]> = if step % 2 == 1 { Some(&mask) } else { None };
                let c0 = crate::alloc::now();
                let res = r.process_into_buffer(&inp, &mut out, m);
                let d = crate::alloc::now().since(&c0);
                transitions += 1;
                outcomes.insert(format!("{}:wide:{}", cfg.kind.name(), if res.is_ok() { "Ok" } else { "Err" }));
                if d.total() > 0 && found.len() < 60 {
                    found.push(json!({"prop": "C09", "sig": "alloc-in:process_into_buffer:many-channels", "detail": format!("call {} of a plain walk on {} channels ({}): {:?}", step, nch, if m.is_some() { "masked" } else { "unmasked" }, d), "cfg": cfg.to_json(), "history": "", "sample_type": "f64", "point": "wide"}));
                    break;
                }
            }
        }
    }
    Ok(json!({
        "label": "repeated cycles", "states": states, "transitions": transitions,
        "outcomes": outcomes.iter().collect::<Vec<_>>(), "found": found,
        "samples": [{"cycles": "13-15 cycles of 2-4 operations (masked call + reset, partial call + reset, rejected call + call, ramp + reset, chunk size down and up ...) x 12 rounds x 14 configurations (all seven types, 2 and 3 channels)"}],
    }))
}

/// Control must not depend on sample values: the same history on two different signals must
/// give identical results, getters and control fields at every step. A difference is reported
/// as a machinery error (the state merging of E1 would be unsound), not as a verdict.
fn data_independence_audit(cfg: &Cfg, journal: Option<&JournalFile>) -> Result<(), String> {
    use crate::run::{Res, Runner};
    let mut a = Runner::<f64>::new(cfg, Signal::Noise)?;
    let mut b = Runner::<f64>::new(cfg, Signal::Zero)?;
    let mut ops: Vec<Op> = vec![Op::P; 12];
    if cfg.kind.is_async() && cfg.max_rel > 1.0 {
        ops.extend([Op::R((1.0 + cfg.max_rel) / 2.0, true), Op::P, Op::P, Op::R(1.0 / cfg.max_rel, false), Op::P, Op::P]);
    }
    if cfg.kind.is_sinc() {
        ops.extend([Op::C((cfg.chunk / 2).max(1)), Op::P, Op::P]);
    }
    ops.extend([Op::PP(Some(1)), Op::P, Op::Z, Op::P, Op::P]);
    for (i, op) in ops.iter().enumerate() {
        if let Some(j) = journal {
            j.write(&cfg.to_json(), &history_text(&ops[..=i]));
        }
        let (oa, ob) = (a.apply(*op), b.apply(*op));
        if a.dead || b.dead {
            // a crash is C03's business, found by the exploration itself
            if a.dead != b.dead {
                return Err(format!("data-independence audit: {} step {} ({}): one signal crashes, the other does not", cfg.short(), i, op.text()));
            }
            return Ok(());
        }
        let same_res = match (&oa.res, &ob.res) {
            (Res::Panic(_), Res::Panic(_)) => true,
            (x, y) => x == y,
        };
        if !same_res || oa.after != ob.after || a.state().scalars != b.state().scalars {
            return Err(format!(
                "data-independence audit: {} step {} ({}): control differs between two input signals ({} vs {}); merging states on control fingerprints is unsound",
                cfg.short(), i, op.text(), oa.res.text(), ob.res.text()
            ));
        }
    }
    Ok(())
}

fn twin_class(cfg: &Cfg) -> String {
    match cfg.kind {
        Kind::FI | Kind::FO => format!("fast-{}", cfg.degree.name()),
        Kind::SI | Kind::SO => "sinc".into(),
        _ => "fft".into(),
    }
}

fn merge(into: &mut Value, add: Value) {
    if let (Some(c), Some(w)) = (add["extra"]["class"].as_str(), add["extra"]["worst_units"].as_f64()) {
        let cur = into["extra"]["worst"][c].as_f64().unwrap_or(0.0);
        if into.is_null() {
            // handled below
        } else {
            into["extra"]["worst"][c] = json!(cur.max(w));
        }
    }
    if into.is_null() {
        *into = add;
        if let (Some(c), Some(w)) = (into["extra"]["class"].as_str().map(String::from), into["extra"]["worst_units"].as_f64()) {
            into["extra"]["worst"] = json!({ c: w });
        }
        return;
    }
    for k in ["states", "transitions", "horizon_caps", "closed", "state_caps", "terminal", "effective_deviations", "found_overflow"] {
        let a = into[k].as_u64().unwrap_or(0) + add[k].as_u64().unwrap_or(0);
        into[k] = json!(a);
    }
    for k in ["outcomes", "found", "samples"] {
        let mut a = into[k].as_array().cloned().unwrap_or_default();
        let b = add[k].as_array().cloned().unwrap_or_default();
        if k == "samples" && a.len() >= 3 {
            continue;
        }
        if k == "outcomes" {
            for x in b {
                if !a.contains(&x) {
                    a.push(x);
                }
            }
        } else {
            a.extend(b);
        }
        into[k] = json!(a);
    }
}

impl Check for CtrlCheck {
    fn id(&self) -> &'static str {
        self.id
    }
    fn level(&self) -> &'static str {
        "model_checking"
    }
    fn engine(&self) -> &'static str {
        "E1 explicit-state deviation-bounded exploration of call histories on the real resampler objects"
    }
    fn n_items(&self, tier: Tier) -> usize {
        items(tier, self.id).len() + if self.id == "C13" || self.id == "C09" || self.id == "C03" { 1 } else if self.id == "C10" { C10_SWEEP.len() } else { 0 }
    }
    fn run_item(&self, tier: Tier, idx: usize, journal: Option<&JournalFile>) -> Result<Value, String> {
        let all = items(tier, self.id);
        if self.id == "C09" && idx == all.len() {
            return cycles_item(journal);
        }
        if self.id == "C03" && idx == all.len() {
            return zero_channel_item("C03");
        }
        if self.id == "C10" && idx >= all.len() {
            return c10_sweep_item(tier, C10_SWEEP[idx - all.len()], journal);
        }
        if self.id == "C13" && idx == all.len() {
            let (n1, mut f1, mut o1) = crate::ctor::run::<f64>("f64");
            let (n2, f2, o2) = crate::ctor::run::<f32>("f32");
            f1.extend(f2);
            o1.extend(o2);
            return Ok(json!({
                "label": "constructor argument menu", "states": 1, "transitions": n1 + n2,
                "outcomes": o1, "found": f1,
                "samples": [{"constructor_menu": "ratio in {0,-0,-1,-inf,-MIN_POSITIVE,-5e-324}, max relative in {1-1ulp,0.5,0,-1,-inf}, rates (0,b) (a,0) (0,0); all seven types x f32/f64"}],
            }));
        }
        let item = all.into_iter().nth(idx).ok_or("no such item")?;
        let mut acc = Value::Null;
        for cfg in &item.cfgs {
            // (a constructor that takes the process down is localised to its configuration)
            if let Some(j) = journal {
                j.write(&cfg.to_json(), "");
            }
            if self.id == "C03" {
                // a constructor that panics on a configuration of the lattice (all of them are
                // valid: positive rates and ratios, chunk >= 1) is a finding, not a harness error
                if let Err(e) = crate::run::Runner::<f64>::new(cfg, Signal::Noise) {
                    if e.contains("constructor panicked") {
                        merge(&mut acc, json!({
                            "label": format!("{} f64", cfg.short()), "states": 1, "transitions": 1,
                            "outcomes": ["ctor-panic"],
                            "found": [{"prop": "C03", "sig": format!("panic-in-constructor:{}", crate::run::classify(&e)), "detail": format!("valid configuration: {}", e),
                                       "cfg": cfg.to_json(), "history": "", "sample_type": "f64"}],
                            "samples": [],
                        }));
                        continue;
                    }
                }
            }
            if self.id == "C04" && cfg.chunk < (1 << 20) {
                // the allocation helpers embody the advertised maxima: every channel of an
                // unfilled buffer has room for the maximum, every channel of a filled one holds it
                if let Ok(r) = cfg.build::<f64>() {
                    let (imax, omax) = (r.input_frames_max(), r.output_frames_max());
                    let mut bad: Vec<String> = Vec::new();
                    for (what, filled, buf, want) in [
                        ("input_buffer_allocate(false)", false, r.input_buffer_allocate(false), imax),
                        ("input_buffer_allocate(true)", true, r.input_buffer_allocate(true), imax),
                        ("output_buffer_allocate(false)", false, r.output_buffer_allocate(false), omax),
                        ("output_buffer_allocate(true)", true, r.output_buffer_allocate(true), omax),
                    ] {
                        if buf.len() != cfg.channels {
                            bad.push(format!("{} has {} channels", what, buf.len()));
                        }
                        for (c, ch) in buf.iter().enumerate() {
                            if ch.capacity() < want || (filled && ch.len() != want) || (!filled && !ch.is_empty()) {
                                bad.push(format!("{}: channel {} has length {} and capacity {}, the advertised maximum is {}", what, c, ch.len(), ch.capacity(), want));
                                break;
                            }
                        }
                    }
                    if !bad.is_empty() {
                        merge(&mut acc, json!({
                            "label": format!("{} f64", cfg.short()), "states": 1, "transitions": 4,
                            "outcomes": ["allocate-bad"],
                            "found": [{"prop": "C04", "sig": "allocated-buffer-smaller-than-advertised-maximum", "detail": bad.join("; "), "cfg": cfg.to_json(), "history": "", "sample_type": "f64"}],
                            "samples": [],
                        }));
                    }
                }
            }
            if self.id == "C03" && cfg.chunk < (1 << 24) {
                // standing audit of the assumption behind merging on control fingerprints
                data_independence_audit(cfg, journal)?;
            }
            let spec = spec_for(self.id, tier, cfg);
            let cj = cfg.to_json();
            let jf = |h: &[Op], op: Op| {
                if let Some(j) = journal {
                    let mut hh = h.to_vec();
                    hh.push(op);
                    j.write(&cj, &history_text(&hh));
                }
            };
            let jref: Option<&dyn Fn(&[Op], Op)> = if journal.is_some() { Some(&jf) } else { None };
            if self.id == "C17" {
                let mk = || -> Result<Box<dyn crate::explore::Sys>, String> {
                    Ok(Box::new(crate::twin::TwinSys::new(cfg)?))
                };
                let o = crate::explore::explore_sys(&spec, &mk, jref).map_err(|e| format!("{}: {}", cfg.short(), e))?;
                let mut oj = outcome_json(cfg, &o, "twin");
                oj["extra"] = json!({"worst_units": crate::twin::WORST.with(|w| w.replace(0.0)), "class": twin_class(cfg)});
                merge(&mut acc, oj);
                // the same exploration on a very quiet signal (peak 2^-26): FFT types, large
                // chunks, and every eighth of the other configurations
                if cfg.kind.is_fft() || cfg.chunk >= 1024 || (cfg.chunk + cfg.channels + cfg.filter_len()) % 8 == 0 {
                    let mkq = || -> Result<Box<dyn crate::explore::Sys>, String> {
                        Ok(Box::new(crate::twin::TwinSys::quiet(cfg)?))
                    };
                    let o = crate::explore::explore_sys(&spec, &mkq, jref).map_err(|e| format!("{}: {}", cfg.short(), e))?;
                    let mut oj = outcome_json(cfg, &o, "twin-quiet");
                    oj["extra"] = json!({"worst_units": crate::twin::WORST.with(|w| w.replace(0.0)), "class": twin_class(cfg)});
                    merge(&mut acc, oj);
                }
                // and on a signal at the bottom of the f32 range (peak 2^-120): explicitly
                // selected kernels and every sixteenth of the other configurations
                if cfg.chunk < 10_000 && (matches!(cfg.kernel, Kernel::Sse | Kernel::Avx | Kernel::Scalar) && cfg.kind.is_sinc() || (cfg.chunk + cfg.channels + cfg.filter_len()) % 16 == 0) {
                    let mkt = || -> Result<Box<dyn crate::explore::Sys>, String> {
                        Ok(Box::new(crate::twin::TwinSys::tiny(cfg)?))
                    };
                    let o = crate::explore::explore_sys(&spec, &mkt, jref).map_err(|e| format!("{}: {}", cfg.short(), e))?;
                    let mut oj = outcome_json(cfg, &o, "twin-tiny");
                    oj["extra"] = json!({"worst_units": crate::twin::WORST.with(|w| w.replace(0.0)), "class": twin_class(cfg)});
                    merge(&mut acc, oj);
                }
                // and on a loud one (peak 2^100): explicitly selected kernels and every sixteenth
                // of the other configurations (another sixteenth)
                if cfg.chunk < 10_000 && (matches!(cfg.kernel, Kernel::Sse | Kernel::Avx | Kernel::Scalar) && cfg.kind.is_sinc() || (cfg.chunk + cfg.channels + cfg.filter_len()) % 16 == 8) {
                    let mkl = || -> Result<Box<dyn crate::explore::Sys>, String> {
                        Ok(Box::new(crate::twin::TwinSys::loud(cfg)?))
                    };
                    let o = crate::explore::explore_sys(&spec, &mkl, jref).map_err(|e| format!("{}: {}", cfg.short(), e))?;
                    let mut oj = outcome_json(cfg, &o, "twin-loud");
                    oj["extra"] = json!({"worst_units": crate::twin::WORST.with(|w| w.replace(0.0)), "class": twin_class(cfg)});
                    merge(&mut acc, oj);
                }
                continue;
            }
            if self.id == "C03" && (cfg.kind.is_fft() || cfg.chunk == 8) && cfg.chunk < (1 << 24) {
                // the same exploration on a signal with NaN samples in the last channel: sample
                // values are inputs too, and a non-finite one must not make any call panic
                let mut sp = spec.clone();
                sp.signal = Signal::NoisePoisonLast(cfg.channels - 1);
                let o = explore::<f64>(&sp, jref).map_err(|e| format!("{}: {}", cfg.short(), e))?;
                merge(&mut acc, outcome_json(cfg, &o, "f64-nan"));
            }
            let mut o = explore::<f64>(&spec, jref).map_err(|e| format!("{}: {}", cfg.short(), e))?;
            if self.id == "C10" {
                crate::c10::continuations(cfg, &mut o)?;
            }
            merge(&mut acc, outcome_json(cfg, &o, "f64"));
            if item.f32_too && self.id != "C10" {
                let o = explore::<f32>(&spec, jref).map_err(|e| format!("{}: {}", cfg.short(), e))?;
                merge(&mut acc, outcome_json(cfg, &o, "f32"));
            }
        }
        Ok(acc)
    }
    fn finalize(&self, tier: Tier, items_v: &[Value], cov: &mut Map<String, Value>) {
        let its = items(tier, self.id);
        let ncfg: usize = its.iter().map(|i| i.cfgs.len()).sum();
        cov.insert("configurations".into(), json!(ncfg));
        cov.insert("deviation_bound_completed".into(), json!(if tier == Tier::Quick { "2 on closing configurations with chunk <= 8 (second layer: ratio/chunk/reset alphabet), 1 elsewhere" } else { "2 on closing configurations with chunk <= 8 (full alphabet in both layers), 1 elsewhere" }));
        cov.insert("deviation_bound_exceptions".into(), json!("3 on 1-frame-chunk closing configurations with filters <= 8 taps and range <= 2 (thorough); 2 on ranges 12/16/32 around whole-number steps; 1 with the ratio alphabet on range-3/5 sweeps and on chunks >= 200; FFT chunks above 2^24 frames: three default calls (quick), one deviation (thorough)"));
        let id = self.id;
        let mut subs: Vec<&str> = vec!["main lattice: ratio x max relative ratio x chunk x (sinc length, oversampling, interpolation, kernel | degree), FFT rate pairs x chunk x sub-chunks (chunk < sub-chunks included)"];
        let on = |ids: &[&str]| ids.contains(&id);
        if on(&["C10", "C17"]) { subs.push("ratios one and two ulp next to 1, 0.5, 2, 0.25 (chunk/ratio within rounding distance of an integer)"); }
        if on(&["C13", "C11", "C03"]) { subs.push("three-channel configurations of all types"); }
        if on(&["C10", "C03", "C06", "C04"]) { subs.push("custom interpolators of 9, 12, 15, 33 taps; probe-kernel chunks of 4096 frames"); }
        if on(&["C09"]) { subs.push("custom interpolators of 9, 12, 15, 33 taps"); }
        if on(&["C03", "C04"]) { subs.push("FFT chunks above 2^24 frames; positions beyond 2^31 sub-filter steps (70 000-frame chunks x 32 768 sub-filters); (chunk, ratio, range) sweep 1..64 x 5 x {3,5}"); }
        if on(&["C09", "C13"]) { subs.push("24-channel configurations with fragmented masks"); }
        if on(&["C09"]) { subs.push("buffers of several hundred kilobytes; large audio configurations (both tiers)"); }
        if on(&["C10", "C13"]) { subs.push("large audio configurations (thorough)"); }
        if on(&["C17", "C03", "C04"]) { subs.push("4096-frame chunks on a 256-fold grid, all interpolations and degrees"); }
        if on(&["C03", "C04", "C09", "C10"]) { subs.push("narrow ranges (1.02..1.2) x chunk 1..16, 480, 1024"); }
        if on(&["C10", "C04", "C03", "C13"]) { subs.push("37 (chunk, ratio) pairs with a whole-number quotient"); }
        if on(&["C04", "C03", "C06"]) { subs.push("ranges 12/16/32 around ratios 1.0 and 0.5"); }
        if on(&["C09", "C03"]) { subs.push("explicitly selected kernels (scalar, SSE, AVX)"); }
        if on(&["C17"]) { subs.push("long filters with oversampling 160/100/3; filters of 1536..2560 taps on explicit kernels; other windows; FFT blocks of thousands of points; every exploration repeated on a signal of peak 2^-26 for FFT types, chunks >= 1024 and every eighth other configuration"); }
        if on(&["C03"]) { subs.push("the exploration repeated with NaN samples in the last channel (FFT types and chunk-8 configurations); data-independence audit per configuration; a panicking constructor is a finding"); }
        if on(&["C13"]) { subs.push("constructor argument menu incl. new_with_interpolator"); }
        cov.insert("sub_lattices".into(), json!(subs));
        let mut per_kind: std::collections::BTreeMap<String, (u64, u64)> = Default::default();
        for v in items_v {
            let label = v["label"].as_str().unwrap_or("?");
            let k = label.split('(').next().unwrap_or("?").to_string();
            let e = per_kind.entry(k).or_insert((0, 0));
            e.0 += v["states"].as_u64().unwrap_or(0);
            e.1 += v["transitions"].as_u64().unwrap_or(0);
        }
        cov.insert(
            "per_kind_states_transitions".into(),
            json!(per_kind.iter().map(|(k, v)| json!({"kind": k, "states": v.0, "transitions": v.1})).collect::<Vec<_>>()),
        );
    }
    fn replay(&self, replay: &Value) -> Result<(bool, String), String> {
        let cfg = Cfg::from_json(&replay["cfg"])?;
        let hist = history_parse(replay["history"].as_str().ok_or("history missing")?)?;
        let ty = replay.get("sample_type").and_then(|x| x.as_str()).unwrap_or("f64");
        let sig = replay.get("signature").and_then(|x| x.as_str()).unwrap_or("");
        if sig.starts_with("ctor:") {
            // a finding of the constructor menu: run the menu again and look for the same call
            let point = replay.get("point").and_then(|x| x.as_str()).unwrap_or("");
            let (_, mut f, _) = crate::ctor::run::<f64>("f64");
            f.extend(crate::ctor::run::<f32>("f32").1);
            let hit = f.iter().find(|x| x["point"] == point && x["sig"] == sig);
            return Ok(match hit {
                Some(x) => (true, format!("  constructor menu: {}\n", x["detail"].as_str().unwrap_or(""))),
                None => (false, format!("  constructor menu: {} behaves as documented\n", point)),
            });
        }
        let spec = spec_for(self.id, Tier::Quick, &cfg);
        let mut log = String::new();
        let mut bad = false;
        if let Some(k) = replay.get("point").and_then(|x| x.as_str()).and_then(|p| p.strip_prefix("migrated:")).and_then(|k| k.parse::<usize>().ok()) {
            // the first k operations on this thread, the rest on a fresh one
            let mut t = Tracked::<f64>::new(&cfg, Signal::Noise, spec.props)?;
            let k = k.min(hist.len());
            for op in &hist[..k] {
                let _ = t.step(*op, true);
            }
            let rest: Vec<Op> = hist[k..].to_vec();
            let id = self.id;
            let (bad, log) = std::thread::spawn(move || {
                crate::run::install_panic_hook();
                let mut log = String::new();
                let mut bad = false;
                for op in rest {
                    let (obs, viols) = t.step(op, true);
                    log.push_str(&format!("  (other thread) {:14} -> {}\n", op.text(), obs.res.text()));
                    for v in viols {
                        if v.prop == id {
                            bad = true;
                            log.push_str(&format!("    VIOLATES {} [{}] {}\n", v.prop, v.sig, v.detail));
                        }
                    }
                    if t.dead() {
                        break;
                    }
                }
                (bad, log)
            })
            .join()
            .map_err(|_| "migration thread panicked".to_string())?;
            return Ok((bad, log));
        }
        if replay.get("point").and_then(|x| x.as_str()) == Some("wide") {
            let v = cycles_item(None)?;
            let hit = v["found"].as_array().map(|a| a.iter().any(|f| f["sig"] == sig && f["cfg"] == replay["cfg"])).unwrap_or(false);
            return Ok((hit, if hit { format!("    VIOLATES C09 [{}] (many-channel walk)\n", sig) } else { "  the many-channel walk finds no heap traffic for this configuration\n".to_string() }));
        }
        if replay.get("point").and_then(|x| x.as_str()) == Some("zero channels") {
            let v = zero_channel_item(self.id)?;
            let hit = v["found"].as_array().map(|a| a.iter().any(|f| f["sig"] == sig && f["cfg"] == replay["cfg"])).unwrap_or(false);
            return Ok((hit, if hit { format!("    VIOLATES {} [{}] (zero-channel walk)\n", self.id, sig) } else { "  the zero-channel walk finds nothing for this configuration\n".to_string() }));
        }
        if self.id == "C04" && sig == "allocated-buffer-smaller-than-advertised-maximum" {
            let r = cfg.build::<f64>()?;
            let (imax, omax) = (r.input_frames_max(), r.output_frames_max());
            let mut bad = false;
            let mut log = String::new();
            for (what, buf, want) in [("input_buffer_allocate(false)", r.input_buffer_allocate(false), imax), ("output_buffer_allocate(false)", r.output_buffer_allocate(false), omax), ("input_buffer_allocate(true)", r.input_buffer_allocate(true), imax), ("output_buffer_allocate(true)", r.output_buffer_allocate(true), omax)] {
                for (c, ch) in buf.iter().enumerate() {
                    log.push_str(&format!("  {} channel {}: length {} capacity {} (maximum {})\n", what, c, ch.len(), ch.capacity(), want));
                    if ch.capacity() < want {
                        bad = true;
                        log.push_str("    VIOLATES C04 [allocated-buffer-smaller-than-advertised-maximum]\n");
                    }
                }
            }
            return Ok((bad, log));
        }
        if self.id == "C03" && sig.starts_with("panic-in-constructor") {
            return Ok(match crate::run::Runner::<f64>::new(&cfg, Signal::Noise) {
                Err(e) if e.contains("constructor panicked") => (true, format!("    VIOLATES C03 [{}] {}\n", sig, e)),
                _ => (false, "  constructor returns normally\n".to_string()),
            });
        }
        let make = || -> Result<Box<dyn crate::explore::Sys>, String> {
            Ok(if self.id == "C17" && ty == "twin-loud" {
                Box::new(crate::twin::TwinSys::loud(&cfg)?)
            } else if self.id == "C17" && ty == "twin-tiny" {
                Box::new(crate::twin::TwinSys::tiny(&cfg)?)
            } else if self.id == "C17" && ty == "twin-quiet" {
                Box::new(crate::twin::TwinSys::quiet(&cfg)?)
            } else if self.id == "C17" {
                Box::new(crate::twin::TwinSys::new(&cfg)?)
            } else if ty == "f64-negzero" {
                Box::new(Tracked::<f64>::new(&cfg, Signal::NegZero, spec.props)?)
            } else if ty == "f64-nan" {
                Box::new(Tracked::<f64>::new(&cfg, Signal::NoisePoisonLast(cfg.channels - 1), spec.props)?)
            } else if ty == "f32" {
                Box::new(Tracked::<f32>::new(&cfg, spec.signal, spec.props)?)
            } else {
                Box::new(Tracked::<f64>::new(&cfg, spec.signal, spec.props)?)
            })
        };
        // 1. step monitors along the history
        let mut t = make()?;
        for (i, op) in hist.iter().enumerate() {
            let (obs, viols) = t.step(*op, true);
            log.push_str(&format!(
                "  step {:3} {:14} -> {:28} next(in,out)=({},{}) max=({},{})\n",
                i, op.text(), obs.res.text(), obs.after.in_next, obs.after.out_next, obs.after.in_max, obs.after.out_max
            ));
            if std::env::var("HX_VERBOSE").is_ok() {
                for (c, ch) in obs.out.iter().enumerate() {
                    log.push_str(&format!("      out[{}] = {:?}\n", c, ch.iter().map(|x| x - crate::run::INDEX_BASE).collect::<Vec<_>>()));
                }
                log.push_str(&format!("      win={:?} probe={:?}\n", obs.win, obs.probe));
            }
            for v in viols {
                if v.prop == self.id {
                    bad = true;
                    log.push_str(&format!("    VIOLATES {} [{}] {}\n", v.prop, v.sig, v.detail));
                }
            }
            if t.dead() {
                break;
            }
        }
        // 2. violations that are found by comparing continuations
        let trace = |s: &mut Box<dyn crate::explore::Sys>, ops: &[Op]| -> Vec<(String, Vec<Vec<u64>>, crate::any::Getters)> {
            let mut out = Vec::new();
            for op in ops {
                let (o, _) = s.step(*op, false);
                let r = match &o.res {
                    crate::run::Res::Panic(m) => format!("PANIC({})", crate::run::classify(m)),
                    other => other.text(),
                };
                out.push((r, o.out.iter().map(|c| c.iter().map(|x| x.to_bits()).collect()).collect(), o.after));
                if s.dead() {
                    break;
                }
            }
            out
        };
        if self.id == "C13" && sig == "rejected-call-changes-later-behaviour" && !hist.is_empty() {
            let (prefix, _) = hist.split_at(hist.len() - 1);
            let mut a = make()?;
            let mut b = make()?;
            if a.replay(&hist) && b.replay(prefix) {
                let (ta, tb) = (trace(&mut a, &[Op::P, Op::P]), trace(&mut b, &[Op::P, Op::P]));
                let same = ta.len() == tb.len() && ta.iter().zip(tb.iter()).all(|(x, y)| x.0 == y.0 && x.1 == y.1);
                if !same {
                    bad = true;
                    log.push_str("    VIOLATES C13 [rejected-call-changes-later-behaviour] the two calls after the rejected call differ from a twin that never saw it\n");
                }
            }
        }
        if self.id == "C10" && sig == "reset-continuation-differs" {
            if let Some(z) = hist.iter().rposition(|o| *o == Op::Z) {
                let (before, cont) = (&hist[..=z], &hist[z + 1..]);
                let mut a = crate::run::Runner::<f64>::new(&cfg, Signal::Noise)?;
                let mut f = crate::run::Runner::<f64>::new(&cfg, Signal::Noise)?;
                a.replay(before);
                a.keep_out = true;
                f.keep_out = true;
                for op in cont {
                    let (oa, of) = (a.apply(*op), f.apply(*op));
                    let same = oa.res.text() == of.res.text() && oa.after == of.after
                        && oa.out.iter().zip(of.out.iter()).all(|(x, y)| x.len() == y.len() && x.iter().zip(y.iter()).all(|(p, q)| p.to_bits() == q.to_bits()));
                    if !same {
                        bad = true;
                        log.push_str(&format!("    VIOLATES C10 [reset-continuation-differs] continuation step {} differs from a freshly constructed resampler\n", op.text()));
                        break;
                    }
                }
            }
        }
        Ok((bad, log))
    }
    fn rule(&self, tier: Tier) -> String {
        format!(
            "layered BFS over control fingerprints (hook verif_state) of live resampler objects: layer d = states reachable with <= d deviations from the default step P, closed under P until the fingerprint repeats or the horizon; every (state, operation) pair of the alphabet is executed on the real code ({} tier); a case is non-trivial/distinct per distinct (operation, result class, next frame counts) outcome",
            tier.name()
        )
    }
    fn assumptions(&self) -> Vec<String> {
        vec![
            "control flow of rubato is independent of sample values (merging on the control fingerprint); verified per run by the f32/f64 and index/noise twins in C17".into(),
            "hook verif_state() reports every field that influences control (cross-checked by C10's twin continuations)".into(),
            "ratios with non-terminating 1/ratio are covered to the stated horizon only".into(),
        ]
    }
    fn vacuity(&self, _tier: Tier) -> (u64, u64) {
        (1000, 8)
    }
}
