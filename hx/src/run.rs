//! Runner: applies operations of the alphabet to a real resampler and records everything the
//! monitors need (results, getters, written cells, allocation counts, access windows).

use crate::alloc;
use crate::any::{Any, Getters};
use crate::cfg::{Cfg, Kernel};
use crate::ops::{Bad, Op};
use crate::probe::{self, ProbeLog};
use rubato::verif::{State, WindowStats};
use rubato::{ResampleError, Sample};
use std::cell::RefCell;
use std::panic::{catch_unwind, AssertUnwindSafe};

pub trait Flt: Sample + PartialEq + std::fmt::Debug + 'static {
    const IS_F32: bool;
    const NAME: &'static str;
    fn to64(self) -> f64;
    fn from64(x: f64) -> Self;
    fn sentinel() -> Self;
    fn is_sentinel(self) -> bool;
    fn bits64(self) -> u64;
}

impl Flt for f64 {
    const IS_F32: bool = false;
    const NAME: &'static str = "f64";
    fn to64(self) -> f64 {
        self
    }
    fn from64(x: f64) -> f64 {
        x
    }
    fn sentinel() -> f64 {
        f64::from_bits(0x7ff8_dead_beef_0001)
    }
    fn is_sentinel(self) -> bool {
        self.to_bits() == 0x7ff8_dead_beef_0001
    }
    fn bits64(self) -> u64 {
        self.to_bits()
    }
}

impl Flt for f32 {
    const IS_F32: bool = true;
    const NAME: &'static str = "f32";
    fn to64(self) -> f64 {
        self as f64
    }
    fn from64(x: f64) -> f32 {
        x as f32
    }
    fn sentinel() -> f32 {
        f32::from_bits(0x7fc0_beef)
    }
    fn is_sentinel(self) -> bool {
        self.to_bits() == 0x7fc0_beef
    }
    fn bits64(self) -> u64 {
        self.to_bits() as u64
    }
}

/// Extra output cells beyond the advertised maximum, so that an over-long write is observed
/// as data (C04) instead of a crash.
pub const SLACK: usize = 16;
pub const INDEX_BASE: f64 = 1048576.0;

#[derive(Clone, Copy, Debug, PartialEq)]
pub enum Signal {
    /// x[n] = n + INDEX_BASE on every channel
    Index,
    /// fixed integer-hash sequence per channel, 20-bit values in [-1, 1) (exact in f32)
    Noise,
    /// all zeros
    Zero,
    /// silence written as -0.0: equal to zero in every comparison, a different bit pattern
    NegZero,
    /// the Noise sequence of channel `ch + offset` (single-channel twins)
    NoiseCh(usize),
    /// the Noise sequence scaled by 2^-26 (peak 1.5e-8): a valid, very quiet signal; everything
    /// the resamplers do is linear, so nothing may depend on the absolute level
    NoiseQuiet,
    /// the Noise sequence scaled by 2^-120 (peak 7.5e-37): every sample is a normal f32, most
    /// products with a filter coefficient are not; gradual underflow keeps the f32 result within
    /// a few 2^-23 of the peak, a flush-to-zero mode does not
    NoiseTiny,
    /// the Noise sequence scaled by 2^100 (peak 1.3e30): finite and 28 binades below f32::MAX; an
    /// implementation that pre-scales its f32 tables or data loses that headroom
    NoiseLoud,
    /// the Noise sequence of channel `ch + offset`, with NaN in every 7th sample of the LAST
    /// channel `last` (only used on multi-channel objects: the other channels must not notice)
    NoisePoisonLast(usize),
    /// the Noise sequence of channel `ch + offset` scaled by 2^-1040 (peak 8.5e-314): every
    /// sample and every product with a filter coefficient is a subnormal f64, so a floating-point
    /// mode that flushes subnormals (left behind on the thread by someone else) shows
    NoiseSubnormalCh(usize),
    /// spectrally trivial signals, a different one per channel (pattern (ch + offset) mod 4): a
    /// click every `period` frames (flat spectrum), 0.75, 0, 0.75, 0 ... (DC + Nyquist), a constant,
    /// alternating signs (Nyquist only). Transforms and scratch buffers of one channel look like
    /// the data of another here; anything shared between channels that is keyed on values shows.
    Trivial(usize, usize),
}

pub fn splitmix(mut x: u64) -> u64 {
    x = x.wrapping_add(0x9e37_79b9_7f4a_7c15);
    let mut z = x;
    z = (z ^ (z >> 30)).wrapping_mul(0xbf58_476d_1ce4_e5b9);
    z = (z ^ (z >> 27)).wrapping_mul(0x94d0_49bb_1331_11eb);
    z ^ (z >> 31)
}

impl Signal {
    pub fn at(&self, ch: usize, n: usize) -> f64 {
        match self {
            Signal::Index => n as f64 + INDEX_BASE,
            Signal::Noise => {
                let h = splitmix((ch as u64) << 40 ^ n as u64);
                (h >> 44) as f64 / 524288.0 - 1.0
            }
            Signal::Zero => 0.0,
            Signal::NegZero => -0.0,
            Signal::NoiseCh(off) => Signal::Noise.at(ch + off, n),
            Signal::NoiseQuiet => Signal::Noise.at(ch, n) * (2.0f64).powi(-26),
            Signal::NoiseTiny => Signal::Noise.at(ch, n) * (2.0f64).powi(-120),
            Signal::NoiseLoud => Signal::Noise.at(ch, n) * (2.0f64).powi(100),
            Signal::NoiseSubnormalCh(off) => Signal::Noise.at(ch + off, n) * (2.0f64).powi(-1040),
            Signal::Trivial(off, period) => match (ch + off) % 4 {
                0 => {
                    if n % (*period).max(1) == 0 {
                        0.75
                    } else {
                        0.0
                    }
                }
                1 => {
                    if n % 2 == 0 {
                        0.75
                    } else {
                        0.0
                    }
                }
                2 => 0.75,
                _ => {
                    if n % 2 == 0 {
                        0.75
                    } else {
                        -0.75
                    }
                }
            },
            Signal::NoisePoisonLast(last) => {
                if ch == *last && n % 7 == 3 {
                    f64::NAN
                } else {
                    Signal::Noise.at(ch, n)
                }
            }
        }
    }
}

#[derive(Clone, Debug, PartialEq)]
pub struct ErrInfo {
    pub variant: &'static str,
    pub fields: Vec<(&'static str, f64)>,
}

impl ErrInfo {
    pub fn from(e: &ResampleError) -> ErrInfo {
        use ResampleError::*;
        let (variant, fields): (&'static str, Vec<(&'static str, f64)>) = match e {
            RatioOutOfBounds {
                provided,
                original,
                max_relative_ratio,
            } => (
                "RatioOutOfBounds",
                vec![
                    ("provided", *provided),
                    ("original", *original),
                    ("max_relative_ratio", *max_relative_ratio),
                ],
            ),
            SyncNotAdjustable => ("SyncNotAdjustable", vec![]),
            WrongNumberOfInputChannels { expected, actual } => (
                "WrongNumberOfInputChannels",
                vec![("expected", *expected as f64), ("actual", *actual as f64)],
            ),
            WrongNumberOfOutputChannels { expected, actual } => (
                "WrongNumberOfOutputChannels",
                vec![("expected", *expected as f64), ("actual", *actual as f64)],
            ),
            WrongNumberOfMaskChannels { expected, actual } => (
                "WrongNumberOfMaskChannels",
                vec![("expected", *expected as f64), ("actual", *actual as f64)],
            ),
            InsufficientInputBufferSize {
                channel,
                expected,
                actual,
            } => (
                "InsufficientInputBufferSize",
                vec![
                    ("channel", *channel as f64),
                    ("expected", *expected as f64),
                    ("actual", *actual as f64),
                ],
            ),
            InsufficientOutputBufferSize {
                channel,
                expected,
                actual,
            } => (
                "InsufficientOutputBufferSize",
                vec![
                    ("channel", *channel as f64),
                    ("expected", *expected as f64),
                    ("actual", *actual as f64),
                ],
            ),
            InvalidChunkSize { max, requested } => (
                "InvalidChunkSize",
                vec![("max", *max as f64), ("requested", *requested as f64)],
            ),
            ChunkSizeNotAdjustable => ("ChunkSizeNotAdjustable", vec![]),
        };
        ErrInfo { variant, fields }
    }
    pub fn get(&self, name: &str) -> Option<f64> {
        self.fields.iter().find(|(n, _)| *n == name).map(|(_, v)| *v)
    }
    pub fn text(&self) -> String {
        let f: Vec<String> = self
            .fields
            .iter()
            .map(|(n, v)| format!("{}={:?}", n, v))
            .collect();
        format!("{}{{{}}}", self.variant, f.join(","))
    }
}

#[derive(Clone, Debug, PartialEq)]
pub enum Res {
    /// a processing call returned Ok((in, out))
    Ok(usize, usize),
    /// a setter returned Ok(())
    Unit,
    Err(ErrInfo),
    Panic(String),
}

impl Res {
    pub fn is_ok(&self) -> bool {
        matches!(self, Res::Ok(_, _) | Res::Unit)
    }
    pub fn text(&self) -> String {
        match self {
            Res::Ok(a, b) => format!("Ok({},{})", a, b),
            Res::Unit => "Ok".into(),
            Res::Err(e) => format!("Err({})", e.text()),
            Res::Panic(m) => format!("PANIC({})", m),
        }
    }
}

#[derive(Clone, Debug, PartialEq, Default)]
pub struct Written {
    /// length of the output slice handed to the call
    pub len: usize,
    /// number of cells that no longer hold the sentinel
    pub touched: usize,
    /// length of the sentinel-free prefix
    pub prefix: usize,
}

#[derive(Clone, Debug)]
pub struct Obs {
    pub op: Op,
    pub before: Getters,
    pub after: Getters,
    pub res: Res,
    /// heap traffic on this thread strictly inside the API call
    pub alloc: alloc::Counts,
    /// heap traffic inside the getter calls made before and after
    pub getter_alloc: alloc::Counts,
    pub written: Vec<Written>,
    /// which channels were active in the call
    pub active: Vec<bool>,
    pub win: WindowStats,
    pub probe: ProbeLog,
    /// output values per channel (only if `keep_out`), as exact f64 images
    pub out: Vec<Vec<f64>>,
    /// frames consumed since construction / the last reset, before this op
    pub pos_before: usize,
    /// frames produced since construction / the last reset, before this op
    pub out_before: usize,
    /// frames per channel that the call was entitled to read
    pub supplied: usize,
    /// for W / WP: lengths of the returned vectors
    pub ret_lens: Vec<usize>,
}

thread_local! {
    static LAST_PANIC: RefCell<Option<String>> = const { RefCell::new(None) };
}

/// Install (once per process) a panic hook that records instead of printing.
pub fn install_panic_hook() {
    std::panic::set_hook(Box::new(|info| {
        let msg = if let Some(s) = info.payload().downcast_ref::<&str>() {
            s.to_string()
        } else if let Some(s) = info.payload().downcast_ref::<String>() {
            s.clone()
        } else {
            "<non-string panic>".to_string()
        };
        let loc = info
            .location()
            .map(|l| {
                let f = l.file();
                let f = f.rsplit('/').next().unwrap_or(f);
                format!(" @{}", f)
            })
            .unwrap_or_default();
        LAST_PANIC.with(|p| *p.borrow_mut() = Some(format!("{}{}", msg, loc)));
    }));
}

pub fn take_panic() -> String {
    LAST_PANIC
        .with(|p| p.borrow_mut().take())
        .unwrap_or_else(|| "<unknown panic>".into())
}

/// Replace every run of digits by '#', so that panic messages form classes.
pub fn classify(msg: &str) -> String {
    let mut out = String::new();
    let mut in_num = false;
    for ch in msg.chars() {
        if ch.is_ascii_digit() {
            if !in_num {
                out.push('#');
                in_num = true;
            }
        } else {
            in_num = false;
            out.push(ch);
        }
    }
    out
}

pub struct Runner<T: Flt> {
    pub cfg: Cfg,
    pub r: Any<T>,
    pub sig: Signal,
    pub pos: usize,
    pub out_total: usize,
    pub keep_out: bool,
    /// plain calls hand over this many input / output frames more than the maxima (the frames
    /// that follow in the signal; sentinel cells), as a caller passing `&signal[pos..]` and a
    /// large scratch buffer does
    pub generous: (usize, usize),
    inbuf: Vec<Vec<T>>,
    outbuf: Vec<Vec<T>>,
    pub dead: bool,
}

fn scan<T: Flt>(buf: &[T]) -> Written {
    let mut touched = 0;
    let mut prefix = 0;
    let mut in_prefix = true;
    for v in buf {
        if v.is_sentinel() {
            in_prefix = false;
        } else {
            touched += 1;
            if in_prefix {
                prefix += 1;
            }
        }
    }
    Written {
        len: buf.len(),
        touched,
        prefix,
    }
}

impl<T: Flt> Runner<T> {
    pub fn new(cfg: &Cfg, sig: Signal) -> Result<Runner<T>, String> {
        let r = match catch_unwind(AssertUnwindSafe(|| cfg.build::<T>())) {
            Ok(x) => x?,
            Err(_) => return Err(format!("constructor panicked: {}", take_panic())),
        };
        let inbuf = r.input_buffer_allocate(true);
        let mut outbuf = r.output_buffer_allocate(true);
        for ch in outbuf.iter_mut() {
            let n = ch.len() + SLACK;
            ch.resize(n, T::sentinel());
        }
        Ok(Runner {
            cfg: cfg.clone(),
            r,
            sig,
            pos: 0,
            out_total: 0,
            keep_out: false,
            generous: (0, 0),
            inbuf,
            outbuf,
            dead: false,
        })
    }

    pub fn state(&self) -> State {
        self.r.verif_state()
    }

    fn fill_in(&self, buf: &mut [Vec<T>], frames: usize) {
        for (ch, v) in buf.iter_mut().enumerate() {
            v.clear();
            for i in 0..frames {
                v.push(T::from64(self.sig.at(ch, self.pos + i)));
            }
        }
    }

    fn arm(&self, supplied: usize) {
        if self.cfg.kind.is_sinc() && self.cfg.kernel == Kernel::Probe && self.sig == Signal::Index {
            let l2 = 2 * self.cfg.filter_len() as isize;
            probe::arm(l2 - self.pos as isize, l2 + supplied as isize);
        } else {
            probe::arm(isize::MIN, isize::MAX);
        }
        let _ = rubato::verif::take_window_stats();
    }

    /// Apply one operation. Never panics; a panic inside rubato becomes `Res::Panic`.
    pub fn apply(&mut self, op: Op) -> Obs {
        let nch = self.cfg.channels;
        let a0 = alloc::now();
        let before = self.r.getters();
        let a1 = alloc::now();
        let mut getter_alloc = a1.since(&a0);
        let pos_before = self.pos;
        let out_before = self.out_total;
        let mut active = vec![true; nch];
        let mut written: Vec<Written> = Vec::new();
        let mut out: Vec<Vec<f64>> = Vec::new();
        let mut ret_lens: Vec<usize> = Vec::new();
        let mut supplied = 0usize;
        let mut call_alloc = alloc::Counts::default();
        let sentinel = T::sentinel();

        // take the reusable buffers out of self so that closures can borrow self.r mutably
        let mut inbuf = std::mem::take(&mut self.inbuf);
        let mut outbuf = std::mem::take(&mut self.outbuf);
        for ch in outbuf.iter_mut() {
            for v in ch.iter_mut() {
                *v = sentinel;
            }
        }

        let res: Res = match op {
            Op::P | Op::Px | Op::Pa | Op::PM(_, _) | Op::PP(_) | Op::PPM(_, _, _) => {
                // ---- build arguments
                let (mask_bits, empty_inactive) = match op {
                    Op::PM(m, e) => (Some(m), e),
                    Op::PPM(m, _, e) => (Some(m), e),
                    _ => (None, false),
                };
                if let Some(m) = mask_bits {
                    for (c, a) in active.iter_mut().enumerate() {
                        *a = (m >> c) & 1 == 1;
                    }
                }
                let mask_vec: Vec<bool> = active.clone();
                supplied = before.in_next;
                let exact = matches!(op, Op::Px);
                let mut tmp_in: Vec<Vec<T>>;
                let mut tmp_out: Vec<Vec<T>>;
                let shared: Vec<T> = if op == Op::Pa {
                    (0..before.in_max).map(|i| T::from64(Signal::Noise.at(0, self.pos + i))).collect()
                } else {
                    Vec::new()
                };
                let generous = op == Op::P && self.generous != (0, 0);
                let (inref, outref): (&mut Vec<Vec<T>>, &mut Vec<Vec<T>>) = if exact
                    || mask_bits.is_some()
                    || matches!(op, Op::PP(_) | Op::Pa)
                    || generous
                {
                    let in_frames = match op {
                        Op::Px => before.in_next,
                        Op::PP(Some(n)) => n,
                        Op::PPM(_, n, _) => n,
                        Op::PP(None) => 0,
                        _ => before.in_max + if generous { self.generous.0 } else { 0 },
                    };
                    let out_frames = match op {
                        Op::Px => before.out_next,
                        _ => before.out_max + SLACK + if generous { self.generous.1 } else { 0 },
                    };
                    tmp_in = vec![Vec::new(); nch];
                    self.fill_in(&mut tmp_in, in_frames);
                    tmp_out = vec![vec![sentinel; out_frames]; nch];
                    if empty_inactive {
                        for c in 0..nch {
                            if !active[c] {
                                tmp_in[c] = Vec::new();
                                tmp_out[c] = Vec::new();
                            }
                        }
                    }
                    (&mut tmp_in, &mut tmp_out)
                } else {
                    let frames = before.in_max;
                    for (ch, v) in inbuf.iter_mut().enumerate() {
                        // same length as allocated: no reallocation
                        for (i, x) in v.iter_mut().enumerate().take(frames) {
                            *x = T::from64(self.sig.at(ch, self.pos + i));
                        }
                    }
                    (&mut inbuf, &mut outbuf)
                };
                if let Op::PP(n) = op {
                    supplied = n.unwrap_or(0).min(before.in_next);
                }
                if let Op::PPM(_, n, _) = op {
                    supplied = n.min(before.in_next);
                }
                self.arm(if matches!(op, Op::PP(_) | Op::PPM(_, _, _)) {
                    before.in_next
                } else {
                    supplied
                });
                let r = &mut self.r;
                let mask_opt: Option<&[bool]> = if mask_bits.is_some() {
                    Some(&mask_vec)
                } else {
                    None
                };
                let c0 = alloc::now();
                let result = catch_unwind(AssertUnwindSafe(|| match op {
                    Op::PP(None) => {
                        r.process_partial_into_buffer(None::<&[Vec<T>]>, outref, mask_opt)
                    }
                    Op::PP(Some(_)) | Op::PPM(_, _, _) => {
                        r.process_partial_into_buffer(Some(&inref[..]), outref, mask_opt)
                    }
                    Op::Pa => {
                        let refs: Vec<&[T]> = (0..nch).map(|_| &shared[..]).collect();
                        r.process_into_buffer(&refs[..], outref, mask_opt)
                    }
                    _ => r.process_into_buffer(&inref[..], outref, mask_opt),
                }));
                call_alloc = alloc::now().since(&c0);
                for ch in outref.iter() {
                    written.push(scan(ch));
                }
                let res = match result {
                    Ok(Ok((i, o))) => Res::Ok(i, o),
                    Ok(Err(e)) => Res::Err(ErrInfo::from(&e)),
                    Err(_) => Res::Panic(take_panic()),
                };
                if let (true, Res::Ok(_, o)) = (self.keep_out, &res) {
                    for ch in outref.iter() {
                        out.push(ch.iter().take(*o).map(|v| v.to64()).collect());
                    }
                }
                res
            }
            Op::W | Op::WP(_) => {
                supplied = before.in_next;
                let in_frames = match op {
                    Op::W => before.in_next,
                    Op::WP(Some(n)) => n,
                    _ => 0,
                };
                let mut tmp_in: Vec<Vec<T>> = vec![Vec::new(); nch];
                self.fill_in(&mut tmp_in, in_frames);
                if let Op::WP(n) = op {
                    supplied = n.unwrap_or(0).min(before.in_next);
                }
                self.arm(before.in_next);
                let r = &mut self.r;
                let c0 = alloc::now();
                let result = catch_unwind(AssertUnwindSafe(|| match op {
                    Op::W => r.process(&tmp_in, None),
                    Op::WP(None) => r.process_partial(None::<&[Vec<T>]>, None),
                    _ => r.process_partial(Some(&tmp_in[..]), None),
                }));
                call_alloc = alloc::now().since(&c0);
                match result {
                    Ok(Ok(v)) => {
                        ret_lens = v.iter().map(|c| c.len()).collect();
                        let o = ret_lens.iter().copied().min().unwrap_or(0);
                        if self.keep_out {
                            for ch in v.iter() {
                                out.push(ch.iter().map(|x| x.to64()).collect());
                            }
                        }
                        Res::Ok(before.in_next, o)
                    }
                    Ok(Err(e)) => Res::Err(ErrInfo::from(&e)),
                    Err(_) => Res::Panic(take_panic()),
                }
            }
            Op::R(_, _) | Op::Ra(_, _) | Op::C(_) | Op::Z => {
                self.arm(0);
                let r = &mut self.r;
                let c0 = alloc::now();
                let result = catch_unwind(AssertUnwindSafe(|| match op {
                    Op::R(x, ramp) => r.set_resample_ratio_relative(x, ramp),
                    Op::Ra(x, ramp) => r.set_resample_ratio(x, ramp),
                    Op::C(k) => r.set_chunk_size(k),
                    _ => {
                        r.reset();
                        Ok(())
                    }
                }));
                call_alloc = alloc::now().since(&c0);
                match result {
                    Ok(Ok(())) => Res::Unit,
                    Ok(Err(e)) => Res::Err(ErrInfo::from(&e)),
                    Err(_) => Res::Panic(take_panic()),
                }
            }
            Op::Bad(shape) => {
                // a malformed call: everything correct except the named dimension
                let in_frames = before.in_max;
                let out_frames = before.out_max + SLACK;
                let mut tmp_in: Vec<Vec<T>> = vec![Vec::new(); nch];
                self.fill_in(&mut tmp_in, in_frames);
                let mut tmp_out: Vec<Vec<T>> = vec![vec![sentinel; out_frames]; nch];
                let mut mask: Option<Vec<bool>> = None;
                let adj = |n: usize, d: i8| -> usize {
                    if d == i8::MIN {
                        0
                    } else {
                        (n as isize + d as isize).max(0) as usize
                    }
                };
                let short = |need: usize, how: u8| -> usize {
                    match how {
                        1 => need.saturating_sub(1),
                        2 => need / 2,
                        _ => 0,
                    }
                };
                let mut wrapper = 0u8;
                match shape {
                    Bad::InChans(d) => {
                        let n = adj(nch, d);
                        tmp_in.resize(n, vec![T::from64(0.25); in_frames]);
                    }
                    Bad::OutChans(d) => {
                        let n = adj(nch, d);
                        tmp_out.resize(n, vec![sentinel; out_frames]);
                    }
                    Bad::InShort(c, how) => {
                        let k = short(before.in_next, how);
                        tmp_in[c as usize].truncate(k);
                    }
                    Bad::AllOffOutChans(d) => {
                        for i in 0..nch {
                            tmp_in[i] = Vec::new();
                            tmp_out[i] = Vec::new();
                        }
                        active = vec![false; nch];
                        mask = Some(vec![false; nch]);
                        tmp_out.resize(adj(nch, d), Vec::new());
                    }
                    Bad::AllOffInChans(d) => {
                        for i in 0..nch {
                            tmp_in[i] = Vec::new();
                            tmp_out[i] = Vec::new();
                        }
                        active = vec![false; nch];
                        mask = Some(vec![false; nch]);
                        tmp_in.resize(adj(nch, d), Vec::new());
                    }
                    Bad::InShortBoth => {
                        tmp_in[0].truncate(short(before.in_next, 1));
                        tmp_in[nch - 1].truncate(short(before.in_next, if nch >= 2 { 2 } else { 1 }));
                    }
                    Bad::OutShortBoth => {
                        tmp_out[0].truncate(short(before.out_next, 1));
                        tmp_out[nch - 1].truncate(short(before.out_next, if nch >= 2 { 2 } else { 1 }));
                    }
                    Bad::OutShort(c, how) => {
                        // the requirement on the output length is the advertised next output size
                        let k = short(before.out_next, how);
                        tmp_out[c as usize].truncate(k);
                    }
                    Bad::MaskLen(d) => mask = Some(vec![true; adj(nch, d)]),
                    Bad::WrapMaskLen(d) => {
                        mask = Some(vec![true; adj(nch, d)]);
                        wrapper = 1;
                    }
                    Bad::WrapPartialMaskLen(d) => {
                        mask = Some(vec![true; adj(nch, d)]);
                        wrapper = 2;
                    }
                    Bad::WrapInChans(d) => {
                        let n = adj(nch, d);
                        tmp_in.resize(n, vec![T::from64(0.25); in_frames]);
                        wrapper = 1;
                    }
                    Bad::WrapInShort(c, how) => {
                        let k = short(before.in_next, how);
                        tmp_in[c as usize].truncate(k);
                        wrapper = 1;
                    }
                    Bad::WrapPartialInChans(d) => {
                        let n = adj(nch, d);
                        tmp_in.resize(n, vec![T::from64(0.25); in_frames]);
                        wrapper = 3;
                    }
                    Bad::MaskedInShort(m, c) => {
                        let mv: Vec<bool> = (0..nch).map(|i| (m >> i) & 1 == 1).collect();
                        for i in 0..nch {
                            if !mv[i] {
                                tmp_in[i] = Vec::new();
                                tmp_out[i] = Vec::new();
                            }
                        }
                        active = mv.clone();
                        mask = Some(mv);
                        let k = short(before.in_next, 1);
                        tmp_in[c as usize].truncate(k);
                    }
                    Bad::MaskedOutShort(m, c) => {
                        let mv: Vec<bool> = (0..nch).map(|i| (m >> i) & 1 == 1).collect();
                        for i in 0..nch {
                            if !mv[i] {
                                tmp_in[i] = Vec::new();
                                tmp_out[i] = Vec::new();
                            }
                        }
                        active = mv.clone();
                        mask = Some(mv);
                        let k = short(before.out_next, 1);
                        tmp_out[c as usize].truncate(k);
                    }
                }
                self.arm(before.in_next);
                let r = &mut self.r;
                let mask_opt: Option<&[bool]> = mask.as_deref();
                let c0 = alloc::now();
                let result = catch_unwind(AssertUnwindSafe(|| match wrapper {
                    0 => r.process_into_buffer(&tmp_in[..], &mut tmp_out[..], mask_opt),
                    1 => r.process(&tmp_in[..], mask_opt).map(|v| {
                        (0usize, v.iter().map(|c| c.len()).min().unwrap_or(0))
                    }),
                    2 => r.process_partial(Some(&tmp_in[..]), mask_opt).map(|v| {
                        (0usize, v.iter().map(|c| c.len()).min().unwrap_or(0))
                    }),
                    _ => r.process_partial_into_buffer(Some(&tmp_in[..]), &mut tmp_out[..], mask_opt),
                }));
                call_alloc = alloc::now().since(&c0);
                for ch in tmp_out.iter() {
                    written.push(scan(ch));
                }
                match result {
                    Ok(Ok((i, o))) => Res::Ok(i, o),
                    Ok(Err(e)) => Res::Err(ErrInfo::from(&e)),
                    Err(_) => Res::Panic(take_panic()),
                }
            }
        };

        self.inbuf = inbuf;
        self.outbuf = outbuf;
        let probe_log = probe::take();
        let win = rubato::verif::take_window_stats();

        match (&res, op) {
            (Res::Unit, Op::Z) => {
                self.pos = 0;
                self.out_total = 0;
            }
            (Res::Ok(i, o), _) if op.is_processing() => {
                self.pos += *i;
                self.out_total += *o;
            }
            (Res::Panic(_), _) => self.dead = true,
            _ => {}
        }

        let a2 = alloc::now();
        let after = if self.dead {
            before
        } else {
            match catch_unwind(AssertUnwindSafe(|| self.r.getters())) {
                Ok(g) => g,
                Err(_) => {
                    self.dead = true;
                    before
                }
            }
        };
        let a3 = alloc::now();
        let ga = a3.since(&a2);
        getter_alloc.allocs += ga.allocs;
        getter_alloc.reallocs += ga.reallocs;
        getter_alloc.deallocs += ga.deallocs;

        Obs {
            op,
            before,
            after,
            res,
            alloc: call_alloc,
            getter_alloc,
            written,
            active,
            win,
            probe: probe_log,
            out,
            pos_before,
            out_before,
            supplied,
            ret_lens,
        }
    }

    /// Replay a history without keeping observations. Returns false if any step failed
    /// (error or panic on an operation), in which case the runner may be dead.
    pub fn replay(&mut self, history: &[Op]) -> bool {
        for op in history {
            let o = self.apply(*op);
            if matches!(o.res, Res::Panic(_)) {
                return false;
            }
        }
        true
    }
}
