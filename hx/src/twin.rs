//! C17: an (f64, f32) pair driven in lock-step through the same history.

use crate::any::Getters;
use crate::cfg::{Cfg, Degree, Kind};
use crate::explore::Sys;
use crate::ops::Op;
use crate::run::{classify, Obs, Res, Signal};
use crate::track::{Props, Tracked, Viol};
use rubato::verif::State;
use std::cell::Cell;

thread_local! {
    /// worst |y32 - y64| / 2^-23 seen on this thread (for the evidence)
    pub static WORST: Cell<f64> = const { Cell::new(0.0) };
}

pub struct TwinSys {
    pub a: Tracked<f64>,
    pub b: Tracked<f32>,
    pub k: f64,
    /// peak of the signal (the tolerance is relative to it)
    pub peak: f64,
}

/// Tolerance factor K: |y32 - y64| <= K * 2^-23 * peak.
pub fn k_for(cfg: &Cfg) -> f64 {
    match cfg.kind {
        Kind::FI | Kind::FO => match cfg.degree {
            Degree::Septic => 4096.0,
            Degree::Quintic => 512.0,
            _ => 16.0,
        },
        Kind::XI | Kind::XO | Kind::XX => {
            // the rounding error of an f32 FFT grows with log2 of its length: 64 units up to
            // 8192-point blocks (measured worst 30 at 4096), in proportion beyond
            let (fi, fo) = crate::kf::fft_sizes(cfg);
            let n = (2 * fi.max(fo)).max(2) as f64;
            64.0 * (n.log2() / 14.0).max(1.0)
        }
        _ => 64.0,
    }
}

impl TwinSys {
    pub fn new(cfg: &Cfg) -> Result<TwinSys, String> {
        let props = Props::only("C17");
        Ok(TwinSys {
            a: Tracked::<f64>::new(cfg, Signal::Noise, props)?,
            b: Tracked::<f32>::new(cfg, Signal::Noise, props)?,
            k: k_for(cfg),
            peak: 1.0,
        })
    }
    /// The same pair on the very quiet signal (peak 2^-26).
    pub fn quiet(cfg: &Cfg) -> Result<TwinSys, String> {
        let props = Props::only("C17");
        Ok(TwinSys {
            a: Tracked::<f64>::new(cfg, Signal::NoiseQuiet, props)?,
            b: Tracked::<f32>::new(cfg, Signal::NoiseQuiet, props)?,
            k: k_for(cfg),
            peak: (2.0f64).powi(-26),
        })
    }
}

impl TwinSys {
    /// The same pair on a signal at the bottom of the f32 range (peak 2^-120).
    pub fn tiny(cfg: &Cfg) -> Result<TwinSys, String> {
        let props = Props::only("C17");
        Ok(TwinSys {
            a: Tracked::<f64>::new(cfg, Signal::NoiseTiny, props)?,
            b: Tracked::<f32>::new(cfg, Signal::NoiseTiny, props)?,
            k: 4.0 * k_for(cfg),
            peak: (2.0f64).powi(-120),
        })
    }
}

impl TwinSys {
    /// The same pair on a loud signal (peak 2^100).
    pub fn loud(cfg: &Cfg) -> Result<TwinSys, String> {
        let props = Props::only("C17");
        Ok(TwinSys {
            a: Tracked::<f64>::new(cfg, Signal::NoiseLoud, props)?,
            b: Tracked::<f32>::new(cfg, Signal::NoiseLoud, props)?,
            k: k_for(cfg),
            peak: (2.0f64).powi(100),
        })
    }
}

fn res_eq(a: &Res, b: &Res) -> bool {
    match (a, b) {
        (Res::Panic(x), Res::Panic(y)) => classify(x) == classify(y),
        _ => a == b,
    }
}

impl Sys for TwinSys {
    fn step(&mut self, op: Op, check: bool) -> (Obs, Vec<Viol>) {
        let (oa, mut va) = self.a.step(op, check);
        let (ob, _) = self.b.step(op, false);
        if check {
            let mut push = |sig: &str, detail: String| {
                va.push(Viol {
                    prop: "C17",
                    sig: sig.to_string(),
                    detail,
                })
            };
            if !res_eq(&oa.res, &ob.res) {
                push("result-differs", format!("{}: f64 {} vs f32 {}", op.text(), oa.res.text(), ob.res.text()));
            }
            if oa.after != ob.after {
                push("getters-differ", format!("{}: f64 {:?} vs f32 {:?}", op.text(), oa.after, ob.after));
            }
            if !self.a.run.dead && !self.b.run.dead {
                let (sa, sb) = (self.a.run.state(), self.b.run.state());
                let diff: Vec<String> = sa
                    .scalars
                    .iter()
                    .zip(sb.scalars.iter())
                    .filter(|(x, y)| x.0 != "filter_hash" && x != y)
                    .map(|(x, y)| format!("{}: f64 {:#x} f32 {:#x}", x.0, x.1, y.1))
                    .collect();
                if !diff.is_empty() {
                    push("control-differs", format!("{}: {}", op.text(), diff.join(", ")));
                }
            }
            if let (Res::Ok(_, o1), Res::Ok(_, o2)) = (&oa.res, &ob.res) {
                if o1 == o2 {
                    let tol = self.k * 2f64.powi(-23) * self.peak;
                    let mut worst = 0.0f64;
                    let mut at = (0usize, 0usize);
                    for (c, (x, y)) in oa.out.iter().zip(ob.out.iter()).enumerate() {
                        if !oa.active.get(c).copied().unwrap_or(true) {
                            continue;
                        }
                        for (j, (u, w)) in x.iter().zip(y.iter()).enumerate() {
                            let d = (u - w).abs();
                            if !(d <= worst) {
                                worst = d;
                                at = (c, j);
                            }
                        }
                    }
                    let units = worst / (2f64.powi(-23) * self.peak);
                    WORST.with(|w| {
                        if units > w.get() {
                            w.set(units)
                        }
                    });
                    if !(worst <= tol) {
                        push(
                            "output-differs",
                            format!(
                                "{}: |y32-y64| = {:e} (= {:.1} * 2^-23 * peak {:e}) at channel {} frame {}, tolerance {} * 2^-23 * peak",
                                op.text(), worst, units, self.peak, at.0, at.1, self.k
                            ),
                        );
                    }
                }
            }
        }
        (oa, va)
    }
    fn replay(&mut self, history: &[Op]) -> bool {
        for op in history {
            let (o, _) = self.step(*op, false);
            if matches!(o.res, Res::Panic(_)) {
                return false;
            }
        }
        true
    }
    fn state(&self) -> State {
        self.a.run.state()
    }
    fn getters(&self) -> Getters {
        self.a.run.r.getters()
    }
    fn dead(&self) -> bool {
        self.a.run.dead || self.b.run.dead
    }
    fn spec_key(&self) -> u64 {
        Sys::spec_key(&self.a)
    }
}
