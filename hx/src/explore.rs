//! E1: explicit-state, deviation-bounded exploration of call histories on real objects.

use crate::any::{fp_ctrl, Getters};
use crate::cfg::{Cfg, Kind};
use crate::ops::{history_text, Bad, Op};
use crate::run::{Flt, Obs, Res, Signal};
use crate::track::{Props, Tracked, Viol};
use rubato::verif::State;
use std::collections::{HashSet, VecDeque};

#[derive(Clone, Copy, Debug, PartialEq)]
pub enum Alpha {
    /// everything valid: Px R Ra C Z PP PM W WP
    Full,
    /// ratio and chunk changes, reset, exact buffers: Px R Ra C Z
    Ratio,
    /// Ratio plus two rejected calls (output one frame short, input one frame short): a call that
    /// fails validation must not consume a pending ramp or move the position (C06)
    RatioRej,
    /// Full plus the malformed-call menu (C13)
    FullBad,
    /// Full plus one malformed call of each category (histories with failed calls, C10)
    FullFewBad,
}

#[derive(Clone, Debug)]
pub struct Spec {
    pub cfg: Cfg,
    pub alpha: Alpha,
    /// alphabet offered in states that already carry at least one deviation
    pub alpha_deep: Alpha,
    pub bound: usize,
    /// horizon of default steps per orbit, per deviation level
    pub horizon: [usize; 4],
    pub props: Props,
    pub signal: Signal,
    /// cap on the number of states per configuration (a cap hit is reported)
    pub max_states: usize,
    /// record the history of every n-th state (0 = none)
    pub sample_every: usize,
    /// operations applied (but not followed) in the states of the last layer
    pub final_layer: Vec<Op>,
    /// apply `final_layer` only in the first state of each last-layer orbit (the state right
    /// after the deviation, where changes are still pending), not along its whole P-closure
    pub final_layer_first_only: bool,
}

#[derive(Clone, Debug, Default)]
pub struct Found {
    pub prop: String,
    pub sig: String,
    pub detail: String,
    pub history: Vec<Op>,
}

#[derive(Clone, Debug, Default)]
pub struct Outcome {
    pub states: u64,
    pub transitions: u64,
    /// orbits stopped by the horizon
    pub horizon_caps: u64,
    /// orbits that ended by reaching an already known state
    pub closed: u64,
    pub state_cap_hit: bool,
    /// deviations that changed the control fingerprint
    pub effective_deviations: u64,
    pub terminal: u64,
    pub outcomes: HashSet<u64>,
    pub found: Vec<Found>,
    pub found_overflow: u64,
    pub max_depth: usize,
    pub samples: Vec<String>,
    pub sampled_states: Vec<Vec<Op>>,
}

fn dedup_f(v: &mut Vec<f64>) {
    let mut out: Vec<f64> = Vec::new();
    for x in v.iter() {
        if !out.iter().any(|y| y.to_bits() == x.to_bits()) {
            out.push(*x);
        }
    }
    *v = out;
}

/// The relative ratios of the alphabet: 1/m, x-, 1, x+, m  (x- = 0.5, x+ = 2 when in range).
/// These keep 1/ratio dyadic for dyadic original ratios, so orbits still close.
pub fn rel_values(m: f64) -> Vec<f64> {
    if m <= 1.0 {
        return vec![1.0];
    }
    let mut v = vec![1.0 / m];
    if 0.5 > 1.0 / m {
        v.push(0.5);
    }
    v.push(1.0);
    if 2.0 < m {
        v.push(2.0);
    }
    v.push(m);
    dedup_f(&mut v);
    v
}

/// Relative ratios strictly inside (1/m, 1) and (1, m) that are not in `rel_values`: midpoints.
/// They make 1/ratio non-dyadic (orbits no longer close), so they are only offered as the
/// last deviation of a history.
pub fn rel_midpoints(m: f64) -> Vec<f64> {
    if m <= 1.0 {
        return vec![];
    }
    let mut v = vec![(1.0 / m + 1.0) / 2.0, (1.0 + m) / 2.0];
    // changes of less than a per mille (a rate controller tracking clock drift)
    if m >= 1.001 {
        v.push(1.0 - 9.0e-4);
        v.push(1.0 + 9.0e-4);
    }
    v.retain(|x| !rel_values(m).iter().any(|y| y.to_bits() == x.to_bits()));
    v
}

pub fn chunk_values(cfg: &Cfg) -> Vec<usize> {
    let max = cfg.chunk;
    let l = cfg.filter_len();
    let mut v: Vec<usize> = vec![1, 2, l / 2, max / 2, max.saturating_sub(1), max]
        .into_iter()
        .filter(|k| *k >= 1 && *k <= max)
        .collect();
    v.sort();
    v.dedup();
    v
}

/// The deviations offered in a state.
pub fn deviations(cfg: &Cfg, alpha: Alpha, g: &Getters, _st: &State, last_layer: bool) -> Vec<Op> {
    let mut ops: Vec<Op> = vec![Op::Px];
    if cfg.kind.is_async() {
        for x in rel_values(cfg.max_rel) {
            ops.push(Op::R(x, false));
            ops.push(Op::R(x, true));
        }
        if last_layer {
            for x in rel_midpoints(cfg.max_rel) {
                ops.push(Op::R(x, false));
                ops.push(Op::R(x, true));
            }
        }
        if cfg.max_rel > 1.0 {
            ops.push(Op::Ra(cfg.ratio * cfg.max_rel, false));
            ops.push(Op::Ra(cfg.ratio / cfg.max_rel, true));
            if last_layer {
                // one and two units in the last place outside the range: must be rejected; if
                // one is accepted, the sizes that follow from it are out of their bounds
                let up = |x: f64| f64::from_bits(x.to_bits() + 1);
                let hi = cfg.ratio * cfg.max_rel;
                ops.push(Op::Ra(up(hi), false));
                ops.push(Op::Ra(up(up(hi)), false));
                ops.push(Op::Ra(f64::from_bits((cfg.ratio / cfg.max_rel).to_bits() - 1), false));
                // one and three ulp away from the original ratio (in range): a change, however
                // small - it has to be stored, and a reset has to undo it
                ops.push(Op::Ra(up(cfg.ratio), false));
                ops.push(Op::Ra(up(up(up(cfg.ratio))), true));
            }
        }
    }
    if cfg.kind.is_sinc() {
        for k in chunk_values(cfg) {
            ops.push(Op::C(k));
        }
    }
    ops.push(Op::Z);
    if alpha == Alpha::RatioRej {
        // calls that switch every channel (or all but the first) off: they advance the stream and
        // complete a pending ramp like any other call
        ops.push(Op::PM(0, true));
        if cfg.channels >= 2 {
            ops.push(Op::PM(1, false));
        }
        // (a buffer cannot be one frame short of nothing: then the call would be a valid one)
        if g.out_next >= 1 {
            ops.push(Op::Bad(Bad::OutShort(0, 1)));
        }
        if g.in_next >= 1 {
            ops.push(Op::Bad(Bad::InShort((cfg.channels - 1) as u8, 1)));
        }
        return ops;
    }
    if alpha == Alpha::Ratio {
        return ops;
    }
    let next = g.in_next;
    let mut pp: Vec<usize> = vec![1, next / 2, next.saturating_sub(1)]
        .into_iter()
        .filter(|k| *k >= 1 && *k < next)
        .collect();
    pp.sort();
    pp.dedup();
    ops.push(Op::PP(None));
    for k in pp {
        ops.push(Op::PP(Some(k)));
    }
    ops.push(Op::W);
    ops.push(Op::WP(None));
    if next > 1 {
        ops.push(Op::WP(Some(next / 2)));
    }
    if cfg.channels >= 2 {
        let all = (1u32 << cfg.channels) - 1;
        ops.push(Op::PM(all & !1, true)); // channel 0 off
        ops.push(Op::PM(1, true)); // only channel 0
        ops.push(Op::PM(0, true)); // all off
        ops.push(Op::PM(all & !2, false));
        // end-of-stream call under a mask, the inactive channel supplied with frames / empty
        ops.push(Op::PPM(all & !1, 1, false));
        ops.push(Op::PPM(all & !2, 1, true));
        if cfg.channels >= 4 {
            // fragmented masks: every other channel (as many separate runs of active channels as
            // the channel count allows)
            let alt = 0x5555_5555u32 & all;
            ops.push(Op::PM(alt, true));
            ops.push(Op::PM(all & !alt, false));
        }
    } else {
        ops.push(Op::PM(0, true));
        ops.push(Op::PM(1, false));
    }
    if alpha == Alpha::FullBad {
        ops.extend(bad_menu(cfg));
    }
    if alpha == Alpha::FullFewBad {
        let last = (cfg.channels - 1) as u8;
        ops.extend([
            Op::Bad(Bad::InChans(1)),
            Op::Bad(Bad::MaskLen(1)),
            Op::Bad(Bad::InShort(0, 1)),
            Op::Bad(Bad::OutShort(last, 1)),
        ]);
        if cfg.channels >= 2 {
            let all = (1u32 << cfg.channels) - 1;
            ops.push(Op::Bad(Bad::MaskedOutShort(all & !1, 1)));
        }
    }
    ops
}

pub fn bad_menu(cfg: &Cfg) -> Vec<Op> {
    let mut ops = Vec::new();
    let n = cfg.channels;
    for d in [-1i8, 1, i8::MIN] {
        if d == -1 && n == 1 {
            // n-1 == 0 is the same shape as "0"
            continue;
        }
        ops.push(Op::Bad(Bad::InChans(d)));
        ops.push(Op::Bad(Bad::OutChans(d)));
        ops.push(Op::Bad(Bad::MaskLen(d)));
        ops.push(Op::Bad(Bad::WrapMaskLen(d)));
        ops.push(Op::Bad(Bad::WrapPartialMaskLen(d)));
        ops.push(Op::Bad(Bad::WrapInChans(d)));
        ops.push(Op::Bad(Bad::WrapPartialInChans(d)));
        // the same count errors under a mask that switches every channel off
        ops.push(Op::Bad(Bad::AllOffOutChans(d)));
        ops.push(Op::Bad(Bad::AllOffInChans(d)));
    }
    ops.push(Op::Bad(Bad::WrapInShort(0, 1)));
    ops.push(Op::Bad(Bad::WrapInShort((n - 1) as u8, 3)));
    for c in 0..n.min(3) as u8 {
        for how in 1..=3u8 {
            ops.push(Op::Bad(Bad::InShort(c, how)));
            ops.push(Op::Bad(Bad::OutShort(c, how)));
        }
    }
    if n >= 2 {
        ops.push(Op::Bad(Bad::InShortBoth));
        ops.push(Op::Bad(Bad::OutShortBoth));
    }
    if n >= 2 {
        // channel 0 inactive (and empty), channel 1 active and short
        let all = (1u32 << n) - 1;
        ops.push(Op::Bad(Bad::MaskedInShort(all & !1, 1)));
        ops.push(Op::Bad(Bad::MaskedOutShort(all & !1, 1)));
        // channel 1 inactive, channel 0 short
        ops.push(Op::Bad(Bad::MaskedInShort(all & !2, 0)));
        ops.push(Op::Bad(Bad::MaskedOutShort(all & !2, 0)));
    }
    ops
}

const MAX_FOUND_PER_ITEM: usize = 400;

fn record(out: &mut Outcome, viols: Vec<Viol>, hist: &[Op], op: Op) {
    for vi in viols {
        // keep at most a few examples per (prop, sig) per configuration, shortest first (BFS order)
        let same = out
            .found
            .iter()
            .filter(|f| f.prop == vi.prop && f.sig == vi.sig)
            .count();
        if same >= 12 || out.found.len() >= MAX_FOUND_PER_ITEM {
            out.found_overflow += 1;
            continue;
        }
        let mut h = hist.to_vec();
        h.push(op);
        out.found.push(Found {
            prop: vi.prop.to_string(),
            sig: vi.sig,
            detail: vi.detail,
            history: h,
        });
    }
}

fn outcome_hash(op: &Op, res: &Res, g: &Getters) -> u64 {
    let mut h = rubato::verif::Hasher::default();
    h.bytes(op.text().as_bytes());
    match res {
        Res::Ok(i, o) => {
            h.word(1);
            h.word(*i as u64);
            h.word(*o as u64);
        }
        Res::Unit => h.word(2),
        Res::Err(e) => {
            h.word(3);
            h.bytes(e.variant.as_bytes());
        }
        Res::Panic(m) => {
            h.word(4);
            h.bytes(crate::run::classify(m).as_bytes());
        }
    }
    h.word(g.in_next as u64);
    h.word(g.out_next as u64);
    h.0
}

/// The system under exploration: a tracked resampler, or a lock-step twin of two.
pub trait Sys {
    fn step(&mut self, op: Op, check: bool) -> (Obs, Vec<Viol>);
    fn replay(&mut self, history: &[Op]) -> bool;
    fn state(&self) -> State;
    fn getters(&self) -> Getters;
    fn dead(&self) -> bool;
    /// The state of the specification-side monitor (documented ratio pair, chunk size). The
    /// search runs on the product of implementation state and monitor state: two histories that
    /// leave the implementation in the same state but the specification in different ones are
    /// different states (otherwise a wrong transition could hide behind a legitimate history
    /// that happens to reach the same implementation state).
    fn spec_key(&self) -> u64;
}

impl<T: Flt> Sys for Tracked<T> {
    fn step(&mut self, op: Op, check: bool) -> (Obs, Vec<Viol>) {
        Tracked::step(self, op, check)
    }
    fn replay(&mut self, history: &[Op]) -> bool {
        Tracked::replay(self, history)
    }
    fn state(&self) -> State {
        self.run.state()
    }
    fn getters(&self) -> Getters {
        self.run.r.getters()
    }
    fn dead(&self) -> bool {
        self.run.dead
    }
    fn spec_key(&self) -> u64 {
        let mut h = rubato::verif::Hasher::default();
        h.word(self.trk.r_cur.to_bits());
        h.word(self.trk.r_tgt.to_bits());
        h.word(self.trk.chunk as u64);
        h.word(self.trk.dirty as u64);
        h.word(self.trk.last_mask as u64);
        h.0
    }
}

pub type Factory<'a> = &'a dyn Fn() -> Result<Box<dyn Sys>, String>;

pub fn explore<T: Flt>(spec: &Spec, journal: Journal) -> Result<Outcome, String> {
    let f = || -> Result<Box<dyn Sys>, String> {
        Ok(Box::new(Tracked::<T>::new(&spec.cfg, spec.signal, spec.props)?))
    };
    explore_sys(spec, &f, journal)
}

/// Journal hook: called with the history that is about to be executed (slow mode only).
pub type Journal<'a> = Option<&'a dyn Fn(&[Op], Op)>;

pub fn explore_sys(spec: &Spec, make: Factory, journal: Journal) -> Result<Outcome, String> {
    let mut out = Outcome::default();
    let mut seen: HashSet<u64> = HashSet::new();
    let mut queued: HashSet<u64> = HashSet::new();
    let mut frontier: VecDeque<(Vec<Op>, usize)> = VecDeque::new();
    frontier.push_back((Vec::new(), 0));
    let cfg = &spec.cfg;

    'outer: while let Some((hist, nd)) = frontier.pop_front() {
        let mut live = make()?;
        if !live.replay(&hist) {
            continue;
        }
        let mut h = hist.clone();
        let horizon = spec.horizon[nd.min(3)];
        let mut steps = 0usize;
        loop {
            let st = live.state();
            let key = fp_ctrl(&st) ^ live.spec_key().rotate_left(17);
            if !seen.insert(key) {
                out.closed += 1;
                break;
            }
            out.states += 1;
            if spec.sample_every > 0 && (out.states - 1) % spec.sample_every as u64 == 0 {
                out.sampled_states.push(h.clone());
            }
            out.max_depth = out.max_depth.max(h.len());
            if out.states as usize >= spec.max_states {
                out.state_cap_hit = true;
                break 'outer;
            }
            if nd < spec.bound || (!spec.final_layer.is_empty() && (steps == 0 || !spec.final_layer_first_only)) {
                let g = live.getters();
                let devs = if nd < spec.bound {
                    let mut d = deviations(cfg, if nd == 0 { spec.alpha } else if nd == 1 { spec.alpha_deep } else { Alpha::Ratio }, &g, &st, nd + 1 >= spec.bound);
                    // the property's own operations are tried in every explored state, whatever
                    // alphabet the layer uses
                    if steps == 0 || !spec.final_layer_first_only {
                        for op in &spec.final_layer {
                            if !d.contains(op) {
                                d.push(*op);
                            }
                        }
                    }
                    d
                } else {
                    spec.final_layer.clone()
                };
                // C13: what two plain calls produce from this state (computed on demand, once)
                let mut plain_cont: Option<Vec<(String, Vec<Vec<u64>>)>> = None;
                for d in devs {
                    let mut side = make()?;
                    if !side.replay(&h) {
                        break;
                    }
                    if let Some(j) = journal {
                        j(&h, d);
                    }
                    let (obs, viols) = side.step(d, true);
                    out.transitions += 1;
                    out.outcomes.insert(outcome_hash(&d, &obs.res, &obs.after));
                    record(&mut out, viols, &h, d);
                    if side.dead() {
                        out.terminal += 1;
                        continue;
                    }
                    if spec.props.c13 && matches!(d, Op::Bad(_)) && !obs.res.is_ok() {
                        // a following valid call behaves as if the failed call never happened
                        let cont = |s: &mut Box<dyn Sys>| -> Vec<(String, Vec<Vec<u64>>)> {
                            let mut t = Vec::new();
                            for _ in 0..2 {
                                let (o, _) = s.step(Op::P, false);
                                let r = match &o.res {
                                    Res::Panic(m) => format!("PANIC({})", crate::run::classify(m)),
                                    other => other.text(),
                                };
                                t.push((r, o.out.iter().map(|c| c.iter().map(|x| x.to_bits()).collect()).collect()));
                                if s.dead() {
                                    break;
                                }
                            }
                            t
                        };
                        if plain_cont.is_none() {
                            let mut twin = make()?;
                            if twin.replay(&h) {
                                plain_cont = Some(cont(&mut twin));
                                out.transitions += 2;
                            }
                        }
                        let got = cont(&mut side);
                        out.transitions += 2;
                        if let Some(want) = &plain_cont {
                            if &got != want {
                                let step = got.iter().zip(want.iter()).position(|(a, b)| a != b).unwrap_or(0);
                                let what = if got.get(step).map(|x| &x.0) != want.get(step).map(|x| &x.0) { "result" } else { "output samples" };
                                record(
                                    &mut out,
                                    vec![Viol {
                                        prop: "C13",
                                        sig: "rejected-call-changes-later-behaviour".into(),
                                        detail: format!("after the rejected call {} the next valid calls differ ({} of call {}) from a twin that never saw it", d.text(), what, step),
                                    }],
                                    &h,
                                    d,
                                );
                            }
                        }
                        continue;
                    }
                    let k2 = fp_ctrl(&side.state()) ^ side.spec_key().rotate_left(17);
                    if k2 != key {
                        out.effective_deviations += 1;
                    }
                    if nd < spec.bound && !seen.contains(&k2) && queued.insert(k2) {
                        let mut h2 = h.clone();
                        h2.push(d);
                        // keep a few of the richest histories (most deviations) as samples
                        let devs_in = |t: &str| t.split_whitespace().filter(|x| !x.starts_with('P') || x.starts_with("PP") || x.starts_with("PM") || *x == "Px").count();
                        let txt = history_text(&h2);
                        if out.samples.len() < 3 {
                            out.samples.push(txt);
                        } else if let Some((i, _)) = out.samples.iter().enumerate().min_by_key(|(_, t)| devs_in(t)) {
                            if devs_in(&txt) > devs_in(&out.samples[i]) {
                                out.samples[i] = txt;
                            }
                        }
                        frontier.push_back((h2, nd + 1));
                    }
                }
            }
            if let Some(j) = journal {
                j(&h, Op::P);
            }
            let (obs, viols) = live.step(Op::P, true);
            out.transitions += 1;
            out.outcomes.insert(outcome_hash(&Op::P, &obs.res, &obs.after));
            record(&mut out, viols, &h, Op::P);
            h.push(Op::P);
            if live.dead() || !obs.res.is_ok() {
                out.terminal += 1;
                break;
            }
            steps += 1;
            if steps >= horizon {
                out.horizon_caps += 1;
                break;
            }
        }
    }
    let _ = Kind::SI;
    Ok(out)
}
