//! One enum over the seven resampler types, forwarding the whole `Resampler` API.

use rubato::verif::State;
use rubato::{
    FastFixedIn, FastFixedOut, FftFixedIn, FftFixedInOut, FftFixedOut, ResampleResult, Resampler,
    Sample, SincFixedIn, SincFixedOut,
};

pub enum Any<T: Sample> {
    SI(SincFixedIn<T>),
    SO(SincFixedOut<T>),
    FI(FastFixedIn<T>),
    FO(FastFixedOut<T>),
    XI(FftFixedIn<T>),
    XO(FftFixedOut<T>),
    XX(FftFixedInOut<T>),
}

macro_rules! each {
    ($self:expr, $r:ident => $e:expr) => {
        match $self {
            Any::SI($r) => $e,
            Any::SO($r) => $e,
            Any::FI($r) => $e,
            Any::FO($r) => $e,
            Any::XI($r) => $e,
            Any::XO($r) => $e,
            Any::XX($r) => $e,
        }
    };
}

#[derive(Clone, Copy, Debug, PartialEq, Eq, Hash)]
pub struct Getters {
    pub in_next: usize,
    pub in_max: usize,
    pub out_next: usize,
    pub out_max: usize,
    pub delay: usize,
    pub channels: usize,
}

impl<T: Sample> Any<T> {
    pub fn process_into_buffer<Vin: AsRef<[T]>, Vout: AsMut<[T]>>(
        &mut self,
        wave_in: &[Vin],
        wave_out: &mut [Vout],
        mask: Option<&[bool]>,
    ) -> ResampleResult<(usize, usize)> {
        each!(self, r => Resampler::process_into_buffer(r, wave_in, wave_out, mask))
    }
    pub fn process<V: AsRef<[T]>>(
        &mut self,
        wave_in: &[V],
        mask: Option<&[bool]>,
    ) -> ResampleResult<Vec<Vec<T>>> {
        each!(self, r => Resampler::process(r, wave_in, mask))
    }
    pub fn process_partial_into_buffer<Vin: AsRef<[T]>, Vout: AsMut<[T]>>(
        &mut self,
        wave_in: Option<&[Vin]>,
        wave_out: &mut [Vout],
        mask: Option<&[bool]>,
    ) -> ResampleResult<(usize, usize)> {
        each!(self, r => Resampler::process_partial_into_buffer(r, wave_in, wave_out, mask))
    }
    pub fn process_partial<V: AsRef<[T]>>(
        &mut self,
        wave_in: Option<&[V]>,
        mask: Option<&[bool]>,
    ) -> ResampleResult<Vec<Vec<T>>> {
        each!(self, r => Resampler::process_partial(r, wave_in, mask))
    }
    pub fn input_buffer_allocate(&self, filled: bool) -> Vec<Vec<T>> {
        each!(self, r => Resampler::input_buffer_allocate(r, filled))
    }
    pub fn output_buffer_allocate(&self, filled: bool) -> Vec<Vec<T>> {
        each!(self, r => Resampler::output_buffer_allocate(r, filled))
    }
    pub fn input_frames_max(&self) -> usize {
        each!(self, r => Resampler::input_frames_max(r))
    }
    pub fn input_frames_next(&self) -> usize {
        each!(self, r => Resampler::input_frames_next(r))
    }
    pub fn output_frames_max(&self) -> usize {
        each!(self, r => Resampler::output_frames_max(r))
    }
    pub fn output_frames_next(&self) -> usize {
        each!(self, r => Resampler::output_frames_next(r))
    }
    pub fn output_delay(&self) -> usize {
        each!(self, r => Resampler::output_delay(r))
    }
    pub fn nbr_channels(&self) -> usize {
        each!(self, r => Resampler::nbr_channels(r))
    }
    pub fn set_resample_ratio(&mut self, v: f64, ramp: bool) -> ResampleResult<()> {
        if ramp {
            each!(self, r => rubato::VecResampler::set_resample_ratio(r, v, ramp))
        } else {
            each!(self, r => Resampler::set_resample_ratio(r, v, ramp))
        }
    }
    /// Ramped requests go through the object-safe wrapper trait (`VecResampler`, what a
    /// `Box<dyn VecResampler<T>>` calls), the others through `Resampler` directly: both public
    /// entry points of the setters are exercised by every history that changes the ratio.
    pub fn set_resample_ratio_relative(&mut self, v: f64, ramp: bool) -> ResampleResult<()> {
        if ramp {
            each!(self, r => rubato::VecResampler::set_resample_ratio_relative(r, v, ramp))
        } else {
            each!(self, r => Resampler::set_resample_ratio_relative(r, v, ramp))
        }
    }
    pub fn reset(&mut self) {
        each!(self, r => Resampler::reset(r))
    }
    pub fn set_chunk_size(&mut self, k: usize) -> ResampleResult<()> {
        each!(self, r => Resampler::set_chunk_size(r, k))
    }
    pub fn verif_state(&self) -> State {
        each!(self, r => r.verif_state())
    }
    pub fn getters(&self) -> Getters {
        Getters {
            in_next: self.input_frames_next(),
            in_max: self.input_frames_max(),
            out_next: self.output_frames_next(),
            out_max: self.output_frames_max(),
            delay: self.output_delay(),
            channels: self.nbr_channels(),
        }
    }
    /// Move the resampler into a boxed object-safe wrapper.
    pub fn into_boxed(self) -> Box<dyn rubato::VecResampler<T>> {
        match self {
            Any::SI(r) => Box::new(r),
            Any::SO(r) => Box::new(r),
            Any::FI(r) => Box::new(r),
            Any::FO(r) => Box::new(r),
            Any::XI(r) => Box::new(r),
            Any::XO(r) => Box::new(r),
            Any::XX(r) => Box::new(r),
        }
    }
}

/// Scalar field of a state snapshot by name.
pub fn scalar(state: &State, name: &str) -> Option<u64> {
    state
        .scalars
        .iter()
        .find(|(n, _)| *n == name)
        .map(|(_, v)| *v)
}

pub fn scalar_f64(state: &State, name: &str) -> Option<f64> {
    scalar(state, name).map(f64::from_bits)
}

/// Fingerprint of the control part of a state (all scalars; not the mask, not the data).
pub fn fp_ctrl(state: &State) -> u64 {
    let mut h = rubato::verif::Hasher::default();
    h.bytes(state.kind.as_bytes());
    for (n, v) in &state.scalars {
        h.bytes(n.as_bytes());
        h.word(*v);
    }
    h.0
}

/// Fingerprint of control and data (still not the mask and not scratch).
pub fn fp_full(state: &State) -> u64 {
    let mut h = rubato::verif::Hasher(fp_ctrl(state));
    h.word(state.data_hash);
    h.word(state.data_len as u64);
    h.0
}
