//! E2 helpers: run a whole signal through a real resampler; small numeric tools.

use crate::cfg::Cfg;
use crate::run::Flt;

pub struct Streamed {
    pub out: Vec<f64>,
    pub consumed: usize,
    pub delay: usize,
    /// (input frames consumed, output frames produced) per call
    pub calls: Vec<(usize, usize)>,
    /// first call after which output_delay() differed from the value read before the stream
    /// (the ratio is constant over the stream): (call index, value)
    pub delay_changed: Option<(usize, usize)>,
    /// the ratio in use after the last call, read from the hook snapshot (asynchronous types)
    pub final_ratio: Option<f64>,
}

/// Feed `x` (single channel, replicated to all channels) through the resampler in its natural
/// chunking until fewer than input_frames_next() frames remain.
pub fn resample_all<T: Flt>(cfg: &Cfg, x: &[f64]) -> Result<Streamed, String> {
    resample_all_pre::<T>(cfg, x, None)
}

/// As `resample_all`, after `set_resample_ratio_relative(pre, false)` on the fresh resampler
/// (the delay is read after that call).
pub fn resample_all_pre<T: Flt>(cfg: &Cfg, x: &[f64], pre: Option<f64>) -> Result<Streamed, String> {
    resample_all_pre2::<T>(cfg, x, pre, false)
}

/// As `resample_all_pre`; with `rejected_first` the stream is preceded by one call that the
/// resampler must reject (last input channel one frame short) and that must leave no trace.
pub fn resample_all_pre2<T: Flt>(cfg: &Cfg, x: &[f64], pre: Option<f64>, rejected_first: bool) -> Result<Streamed, String> {
    resample_all_opts::<T>(cfg, x, pre, false, rejected_first)
}

/// The general form: optional `set_resample_ratio_relative(pre, ramp)` on the fresh resampler,
/// optional rejected call first.
pub fn resample_all_opts<T: Flt>(cfg: &Cfg, x: &[f64], pre: Option<f64>, ramp: bool, rejected_first: bool) -> Result<Streamed, String> {
    resample_all_full::<T>(cfg, x, pre, ramp, rejected_first, 0)
}

/// The most general form: with `warmup > 0` the resampler first processes that many chunks of a
/// loud alternating signal (for the sinc types after set_chunk_size(chunk/2)) and is then reset.
pub fn resample_all_full<T: Flt>(cfg: &Cfg, x: &[f64], pre: Option<f64>, ramp: bool, rejected_first: bool, warmup: usize) -> Result<Streamed, String> {
    resample_all_x::<T>(cfg, x, &Opts { pre, ramp, rejected_first, warmup, ..Opts::default() })
}

/// What happens to the fresh resampler before / while the stream `x` is fed through it.
#[derive(Clone, Debug, Default)]
pub struct Opts {
    /// set_resample_ratio_relative(pre, ramp) before the first call
    pub pre: Option<f64>,
    pub ramp: bool,
    /// with `pre`: the same relative ratio is requested twice, first with ramp, then without
    pub ramp_then_step: bool,
    /// one rejected call (last input channel one frame short) first
    pub rejected_first: bool,
    /// that many loud chunks (changed chunk size, pending ramp), then reset(), first
    pub warmup: usize,
    /// after `pre2.1` processing calls: set_resample_ratio_relative(pre2.0, false)
    pub pre2: Option<(f64, usize)>,
    /// two-channel configuration: channel 1 is masked out and supplied with empty slices in
    /// every call, and the frames left at the end of `x` are handed to
    /// process_partial_into_buffer(Some([rest, empty]))
    pub masked_tail: bool,
}

pub fn resample_all_x<T: Flt>(cfg: &Cfg, x: &[f64], opts: &Opts) -> Result<Streamed, String> {
    let (pre, ramp, rejected_first, warmup) = (opts.pre, opts.ramp, opts.rejected_first, opts.warmup);
    let mut r = cfg.build::<T>()?;
    if warmup > 0 {
        if cfg.kind.is_sinc() {
            let _ = r.set_chunk_size((cfg.chunk / 2).max(1));
        }
        if cfg.kind.is_async() && cfg.max_rel > 1.0 {
            let _ = r.set_resample_ratio_relative(cfg.max_rel, true);
        }
        let mut ob: Vec<Vec<T>> = r.output_buffer_allocate(true);
        for k in 0..warmup {
            let need = r.input_frames_next();
            let ib: Vec<Vec<T>> = (0..cfg.channels).map(|c| (0..need).map(|i| T::from64(if (i + k + c) % 2 == 0 { 0.9 } else { -0.7 })).collect()).collect();
            let want = r.output_frames_next();
            for ch in ob.iter_mut() {
                if ch.len() < want {
                    ch.resize(want, T::from64(0.0));
                }
            }
            r.process_into_buffer(&ib, &mut ob, None).map_err(|e| format!("warm-up call {} failed: {}", k, e))?;
        }
        r.reset();
    }
    if let Some(rel) = pre {
        if opts.ramp_then_step {
            r.set_resample_ratio_relative(rel, true).map_err(|e| format!("set_resample_ratio_relative({}, true) failed: {}", rel, e))?;
            r.set_resample_ratio_relative(rel, false).map_err(|e| format!("set_resample_ratio_relative({}, false) failed: {}", rel, e))?;
        } else {
            r.set_resample_ratio_relative(rel, ramp).map_err(|e| format!("set_resample_ratio_relative({}) failed: {}", rel, e))?;
        }
    }
    if rejected_first {
        let need = r.input_frames_next();
        if need > 0 {
            let mut bad: Vec<Vec<T>> = vec![vec![T::from64(0.5); need]; cfg.channels];
            bad[cfg.channels - 1].truncate(need - 1);
            let mut ob: Vec<Vec<T>> = r.output_buffer_allocate(true);
            if r.process_into_buffer(&bad, &mut ob, None).is_ok() {
                return Err("a call with a short input channel was accepted".into());
            }
        }
    }
    let n = cfg.channels;
    let delay = r.output_delay();
    let mut out = Vec::new();
    let mut pos = 0usize;
    let mut obuf: Vec<Vec<T>> = r.output_buffer_allocate(true);
    let mut ibuf: Vec<Vec<T>> = vec![Vec::new(); n];
    let mut calls = Vec::new();
    let mut delay_changed: Option<(usize, usize)> = None;
    let mask_v = [true, false];
    let mask: Option<&[bool]> = if opts.masked_tail {
        if n != 2 {
            return Err("masked_tail needs a two-channel configuration".into());
        }
        Some(&mask_v)
    } else {
        None
    };
    loop {
        let need = r.input_frames_next();
        if pos + need > x.len() {
            break;
        }
        for (c, ch) in ibuf.iter_mut().enumerate() {
            ch.clear();
            if !(opts.masked_tail && c == 1) {
                ch.extend(x[pos..pos + need].iter().map(|v| T::from64(*v)));
            }
        }
        let want = r.output_frames_next();
        for ch in obuf.iter_mut() {
            if ch.len() < want {
                ch.resize(want, T::from64(0.0));
            }
        }
        let (i, o) = r
            .process_into_buffer(&ibuf, &mut obuf, mask)
            .map_err(|e| format!("process_into_buffer failed at input frame {}: {}", pos, e))?;
        out.extend(obuf[0][..o].iter().map(|v| v.to64()));
        calls.push((i, o));
        if let Some((rel2, after)) = opts.pre2 {
            if calls.len() == after {
                r.set_resample_ratio_relative(rel2, false).map_err(|e| format!("set_resample_ratio_relative({}) failed: {}", rel2, e))?;
            }
        }
        if opts.pre2.is_some() {
            // the delay legitimately follows the ratio
        } else if delay_changed.is_none() && r.output_delay() != delay {
            delay_changed = Some((calls.len() - 1, r.output_delay()));
        }
        pos += i;
        if i == 0 && o == 0 {
            return Err("no progress".into());
        }
    }
    if opts.masked_tail && pos < x.len() {
        ibuf[0].clear();
        ibuf[0].extend(x[pos..].iter().map(|v| T::from64(*v)));
        ibuf[1].clear();
        let want = r.output_frames_next();
        for ch in obuf.iter_mut() {
            if ch.len() < want {
                ch.resize(want, T::from64(0.0));
            }
        }
        let (_, o) = r
            .process_partial_into_buffer(Some(&ibuf), &mut obuf, mask)
            .map_err(|e| format!("process_partial_into_buffer failed at input frame {}: {}", pos, e))?;
        out.extend(obuf[0][..o].iter().map(|v| v.to64()));
        calls.push((x.len() - pos, o));
        pos = x.len();
    }
    let final_ratio = r.verif_state().scalars.iter().find(|(k, _)| *k == "resample_ratio").map(|(_, v)| f64::from_bits(*v));
    Ok(Streamed {
        final_ratio,
        out,
        consumed: pos,
        delay,
        calls,
        delay_changed,
    })
}

/// Least-squares fit of a*cos(w n) + b*sin(w n) (+ c) on y[n0..n1]; returns (amplitude,
/// phase of A*cos(w n + phase), rms residual, peak residual).
pub fn fit_tone(y: &[f64], w: f64, n0: usize, n1: usize) -> (f64, f64, f64, f64) {
    let (mut scc, mut sss, mut scs, mut syc, mut sys) = (0.0, 0.0, 0.0, 0.0, 0.0);
    for n in n0..n1 {
        let (s, c) = (w * n as f64).sin_cos();
        scc += c * c;
        sss += s * s;
        scs += c * s;
        syc += y[n] * c;
        sys += y[n] * s;
    }
    let det = scc * sss - scs * scs;
    let (a, b) = if det.abs() < 1e-300 {
        (if scc > 0.0 { syc / scc } else { 0.0 }, 0.0)
    } else {
        ((syc * sss - sys * scs) / det, (sys * scc - syc * scs) / det)
    };
    let amp = (a * a + b * b).sqrt();
    let phase = (-b).atan2(a);
    let (mut rss, mut peak) = (0.0f64, 0.0f64);
    for n in n0..n1 {
        let (s, c) = (w * n as f64).sin_cos();
        let e = y[n] - a * c - b * s;
        rss += e * e;
        peak = peak.max(e.abs());
    }
    (amp, phase, (rss / (n1 - n0).max(1) as f64).sqrt(), peak)
}

pub fn rms(y: &[f64]) -> f64 {
    (y.iter().map(|v| v * v).sum::<f64>() / y.len().max(1) as f64).sqrt()
}
