//! C12: ratio and chunk-size controls accept exactly the documented ranges.
//!
//! An argument lattice (exact bounds, their floating-point neighbours, specials) is applied in
//! three states (fresh, ramp pending, after reset, after an earlier chunk-size and ratio change) of every asynchronous type; verdicts are
//! compared with an oracle in exact rational arithmetic on the f64 operands.

use crate::cfg::{Cfg, Degree, Interp, Kernel, Kind};
use crate::frame::{Check, JournalFile, Tier};
use crate::ops::{history_parse, history_text, Op};
use crate::run::{Res, Runner, Signal};
use rubato::verif::State;
use serde_json::{json, Map, Value};
use std::cmp::Ordering;

pub struct C12;

fn decompose(x: f64) -> (u128, i32) {
    // x > 0 finite: x = m * 2^e exactly
    let bits = x.to_bits();
    let exp = ((bits >> 52) & 0x7ff) as i32;
    let frac = bits & ((1u64 << 52) - 1);
    if exp == 0 {
        (frac as u128, -1074)
    } else {
        ((frac | (1u64 << 52)) as u128, exp - 1075)
    }
}

fn bitlen(x: u128) -> i32 {
    128 - x.leading_zeros() as i32
}

/// Exact comparison of a*b with c*d for positive finite f64.
pub fn cmp_prod(a: f64, b: f64, c: f64, d: f64) -> Ordering {
    let (ma, ea) = decompose(a);
    let (mb, eb) = decompose(b);
    let (mc, ec) = decompose(c);
    let (md, ed) = decompose(d);
    let (p, e1) = (ma * mb, ea + eb);
    let (q, e2) = (mc * md, ec + ed);
    if p == 0 || q == 0 {
        return p.cmp(&q);
    }
    let (b1, b2) = (bitlen(p) + e1, bitlen(q) + e2);
    if b1 != b2 {
        return b1.cmp(&b2);
    }
    if e1 >= e2 {
        (p << (e1 - e2) as u32).cmp(&q)
    } else {
        p.cmp(&(q << (e2 - e1) as u32))
    }
}

fn next_up(x: f64) -> f64 {
    if x.is_nan() || x == f64::INFINITY {
        return x;
    }
    if x == 0.0 {
        return f64::from_bits(1);
    }
    let b = x.to_bits();
    if x > 0.0 {
        f64::from_bits(b + 1)
    } else {
        f64::from_bits(b - 1)
    }
}

fn next_down(x: f64) -> f64 {
    -next_up(-x)
}

fn around(b: f64) -> Vec<f64> {
    let u1 = next_up(b);
    let d1 = next_down(b);
    vec![next_down(d1), d1, b, u1, next_up(u1)]
}

fn specials() -> Vec<f64> {
    vec![
        f64::NAN,
        f64::INFINITY,
        f64::NEG_INFINITY,
        0.0,
        -0.0,
        -1.0,
        f64::MIN_POSITIVE,
        5e-324,
        f64::MAX,
    ]
}

#[derive(Clone, Copy, PartialEq, Debug)]
enum Verdict {
    MustAccept,
    MustReject,
    Either,
}

/// Oracle for set_resample_ratio(v): exact closed interval [orig/m, orig*m], user-computed
/// bounds are in.
fn oracle_abs(v: f64, orig: f64, m: f64) -> Verdict {
    if !v.is_finite() || v <= 0.0 {
        return Verdict::MustReject;
    }
    // v >= orig/m  <=>  v*m >= orig ;  v <= orig*m
    let lo_ok = cmp_prod(v, m, orig, 1.0) != Ordering::Less;
    let hi_ok = cmp_prod(v, 1.0, orig, m) != Ordering::Greater;
    if lo_ok && hi_ok {
        return Verdict::MustAccept;
    }
    if v == orig * m || v == orig / m {
        // a bound computed the way a caller computes it; inclusive by the documentation.
        // (It is the f64 nearest to the exact bound, so no other f64 lies in between.)
        return Verdict::MustAccept;
    }
    Verdict::MustReject
}

fn oracle_rel(x: f64, m: f64) -> Verdict {
    if !x.is_finite() || x <= 0.0 {
        return Verdict::MustReject;
    }
    let lo_ok = cmp_prod(x, m, 1.0, 1.0) != Ordering::Less;
    let hi_ok = cmp_prod(x, 1.0, m, 1.0) != Ordering::Greater;
    if lo_ok && hi_ok {
        return Verdict::MustAccept;
    }
    if x == 1.0 / m {
        return Verdict::MustAccept;
    }
    let _ = Verdict::Either;
    Verdict::MustReject
}

const ORIGS: [f64; 14] = [
    1.0 / 16.0,
    0.1,
    0.3,
    0.5,
    0.9,
    147.0 / 160.0,
    1.0,
    1.1,
    1.2,
    160.0 / 147.0,
    2.0,
    3.0,
    7.7,
    16.0,
];
const MAXES: [f64; 11] = [
    1.0,
    1.000_000_119_209_289_6,
    1.01,
    1.1,
    1.5,
    2.0,
    3.0,
    7.0,
    10.0,
    10.1,
    100.0,
];

/// (original ratio, max relative ratio, chunk size)
fn pairs(tier: Tier) -> Vec<(f64, f64, usize)> {
    let mut v = Vec::new();
    for (i, o) in ORIGS.iter().enumerate() {
        for (j, m) in MAXES.iter().enumerate() {
            let _ = (i, j, tier);
            v.push((*o, *m, 4));
        }
    }
    // chunk / ratio is a whole number: cached sizes computed by two differently rounded formulas
    // (constructor / reset vs. the setters) may differ by one frame exactly here, so that a call
    // which merely recomputes a size is not a no-op
    for (o, c) in [(0.91875, 147usize), (0.91875, 441), (0.96, 480), (0.7, 7), (1.2, 12), (1.1, 11), (0.35, 7), (0.45, 9), (1.7, 17), (0.48, 480)] {
        v.push((o, 2.0, c));
    }
    // original ratios at the ends of the f64 range: the bounds (and the targets between them)
    // are subnormal or close to overflow
    for (o, m) in [(4.0e-308, 4.0), (1.0e-300, 2.0), (1.0e300, 2.0), (4.0e307, 4.0)] {
        v.push((o, m, 4));
    }
    v
}

fn cfgs_for(orig: f64, m: f64, chunk: usize) -> Vec<Cfg> {
    if orig < 1e-100 {
        // the fixed-output types would ask for chunk / ratio input frames
        return vec![
            Cfg::sinc(Kind::SI, orig, m, chunk, 8, 2, Interp::Cubic, Kernel::Probe),
            Cfg::fast(Kind::FI, orig, m, chunk, Degree::Cubic),
        ];
    }
    if orig > 1e100 {
        // the fixed-input types would produce chunk * ratio output frames
        return vec![
            Cfg::sinc(Kind::SO, orig, m, chunk, 8, 2, Interp::Linear, Kernel::Dispatch),
            Cfg::fast(Kind::FO, orig, m, chunk, Degree::Septic),
        ];
    }
    vec![
        Cfg::sinc(Kind::SI, orig, m, chunk, 8, 2, Interp::Cubic, Kernel::Probe),
        Cfg::sinc(Kind::SO, orig, m, chunk, 8, 2, Interp::Linear, Kernel::Dispatch),
        Cfg::fast(Kind::FI, orig, m, chunk, Degree::Cubic),
        Cfg::fast(Kind::FO, orig, m, chunk, Degree::Septic),
    ]
}

fn prefixes(m: f64) -> Vec<Vec<Op>> {
    let hi = if m > 1.0 { (1.0 + m) / 2.0 } else { 1.0 };
    vec![
        vec![],
        vec![Op::P, Op::R(hi, true)],
        vec![Op::P, Op::R(hi, true), Op::P, Op::Z],
        // after earlier accepted changes: chunk size shrunk (ignored by the types that cannot),
        // ratio moved to the lower end of its range
        vec![Op::C(1), Op::P, Op::R(1.0 / m, false), Op::P],
    ]
}

struct Acc {
    transitions: u64,
    states: u64,
    found: Vec<Value>,
    outcomes: std::collections::HashSet<String>,
    must_accept: u64,
    must_reject: u64,
    samples: Vec<Value>,
}

fn state_eq(a: &State, b: &State) -> bool {
    a.scalars == b.scalars && a.data_hash == b.data_hash && a.data_shape == b.data_shape
}

fn continuation(r: &mut Runner<f64>) -> Vec<(Res, Vec<Vec<f64>>)> {
    r.keep_out = true;
    let mut out = Vec::new();
    for _ in 0..2 {
        let o = r.apply(Op::P);
        out.push((o.res.clone(), o.out.clone()));
    }
    out
}

fn same_cont(a: &[(Res, Vec<Vec<f64>>)], b: &[(Res, Vec<Vec<f64>>)]) -> bool {
    a.len() == b.len()
        && a.iter().zip(b.iter()).all(|(x, y)| {
            x.0 == y.0
                && x.1.len() == y.1.len()
                && x.1.iter().zip(y.1.iter()).all(|(p, q)| {
                    p.len() == q.len() && p.iter().zip(q.iter()).all(|(u, v)| u.to_bits() == v.to_bits())
                })
        })
}

fn fresh(cfg: &Cfg, prefix: &[Op]) -> Result<Runner<f64>, String> {
    let mut r = Runner::<f64>::new(cfg, Signal::Noise)?;
    r.replay(prefix);
    Ok(r)
}

fn viol(acc: &mut Acc, cfg: &Cfg, hist: &[Op], sig: &str, detail: String) {
    if acc.found.iter().filter(|f| f["sig"] == sig).count() >= 30 {
        return;
    }
    acc.found.push(json!({"prop": "C12", "sig": sig, "detail": detail, "cfg": cfg.to_json(), "history": history_text(hist)}));
}

fn check_ratio_call(acc: &mut Acc, cfg: &Cfg, prefix: &[Op], op: Op, journal: Option<&JournalFile>) -> Result<(), String> {
    let (orig, m) = (cfg.ratio, cfg.max_rel);
    let mut hist = prefix.to_vec();
    hist.push(op);
    if let Some(j) = journal {
        j.write(&cfg.to_json(), &history_text(&hist));
    }
    let (verdict, target, is_rel, ramp) = match op {
        Op::Ra(v, r) => (oracle_abs(v, orig, m), v, false, r),
        Op::R(x, r) => (oracle_rel(x, m), orig * x, true, r),
        _ => unreachable!(),
    };
    let mut a = fresh(cfg, prefix)?;
    let before = a.state();
    let obs = a.apply(op);
    acc.transitions += 1;
    let after = if a.dead { None } else { Some(a.state()) };
    acc.outcomes.insert(format!("{}:{:?}:{}", cfg.kind.name(), verdict, obs.res.text().split('(').next().unwrap_or("")));
    match verdict {
        Verdict::MustAccept => acc.must_accept += 1,
        Verdict::MustReject => acc.must_reject += 1,
        Verdict::Either => {}
    }
    match (&obs.res, verdict) {
        (Res::Panic(p), _) => viol(acc, cfg, &hist, "setter-panic", format!("{} panicked: {}", op.text(), p)),
        (Res::Unit, Verdict::MustReject) => viol(
            acc, cfg, &hist, if is_rel { "rel-accepted-out-of-range" } else { "abs-accepted-out-of-range" },
            format!("{} accepted although outside [{:?}/{:?}, {:?}*{:?}]", op.text(), orig, m, orig, m),
        ),
        (Res::Err(e), Verdict::MustAccept) => viol(
            acc, cfg, &hist, if is_rel { "rel-rejected-in-range" } else { "abs-rejected-in-range" },
            format!("{} rejected ({}) although within the documented closed interval (original {:?}, max relative {:?})", op.text(), e.text(), orig, m),
        ),
        _ => {}
    }
    match &obs.res {
        Res::Err(e) => {
            if e.variant != "RatioOutOfBounds" {
                viol(acc, cfg, &hist, "reject-wrong-variant", format!("{} -> {}", op.text(), e.text()));
            } else {
                let p = e.get("provided").unwrap_or(f64::NAN);
                let arg = match op {
                    Op::Ra(v, _) | Op::R(v, _) => v,
                    _ => 0.0,
                };
                // the relative setter behaves as the absolute one called with original * x: the
                // error reports that product, not the relative factor
                let _ = arg;
                let okp = p.to_bits() == target.to_bits() || (p.is_nan() && target.is_nan());
                if !okp || e.get("original") != Some(orig) || e.get("max_relative_ratio") != Some(m) {
                    viol(acc, cfg, &hist, "reject-wrong-fields", format!("{} -> {}", op.text(), e.text()));
                }
            }
            if let Some(after) = &after {
                if !state_eq(&before, after) {
                    viol(acc, cfg, &hist, "reject-changed-state", format!("{} was rejected but changed the resampler state", op.text()));
                }
            }
            // twin continuation: as if the call never happened
            let mut b = fresh(cfg, prefix)?;
            let (ca, cb) = (continuation(&mut a), continuation(&mut b));
            acc.transitions += 4;
            if !same_cont(&ca, &cb) {
                viol(acc, cfg, &hist, "reject-changed-behaviour", format!("after rejected {}, the next two chunks differ from a twin that never saw the call", op.text()));
            }
        }
        Res::Unit => {
            if let Some(after) = &after {
                let tr = crate::any::scalar_f64(after, "target_ratio");
                let rr = crate::any::scalar_f64(after, "resample_ratio");
                let rr_before = crate::any::scalar_f64(&before, "resample_ratio");
                if tr.map(|x| x.to_bits()) != Some(target.to_bits()) {
                    viol(acc, cfg, &hist, "accepted-wrong-target", format!("{}: target ratio is {:?}, expected {:?}", op.text(), tr, target));
                }
                let want_rr = if ramp { rr_before } else { Some(target) };
                if rr.map(|x| x.to_bits()) != want_rr.map(|x| x.to_bits()) {
                    viol(acc, cfg, &hist, "accepted-wrong-current", format!("{}: current ratio is {:?}, expected {:?} (ramp {})", op.text(), rr, want_rr, ramp));
                }
            }
            if is_rel {
                // relative(x) behaves as absolute(orig*x)
                let mut b = fresh(cfg, prefix)?;
                let ob = b.apply(Op::Ra(target, ramp));
                acc.transitions += 1;
                if ob.res == Res::Unit {
                    let (sa, sb) = (a.state(), b.state());
                    if !state_eq(&sa, &sb) {
                        viol(acc, cfg, &hist, "rel!=abs-state", format!("{} and Ra({:?}) leave different states", op.text(), target));
                    }
                    let (ca, cb) = (continuation(&mut a), continuation(&mut b));
                    acc.transitions += 4;
                    if !same_cont(&ca, &cb) {
                        viol(acc, cfg, &hist, "rel!=abs-behaviour", format!("{} and Ra({:?}) continue differently", op.text(), target));
                    }
                }
            }
        }
        _ => {}
    }
    Ok(())
}

fn check_chunk_calls(acc: &mut Acc, cfg: &Cfg, prefix: &[Op], journal: Option<&JournalFile>) -> Result<(), String> {
    let max = cfg.chunk;
    let mut ks: Vec<usize> = (0..=max + 2).collect();
    ks.push(usize::MAX);
    ks.push(usize::MAX / 2);
    for k in ks {
        let op = Op::C(k);
        let mut hist = prefix.to_vec();
        hist.push(op);
        if let Some(j) = journal {
            j.write(&cfg.to_json(), &history_text(&hist));
        }
        let mut a = fresh(cfg, prefix)?;
        let before = a.state();
        let obs = a.apply(op);
        acc.transitions += 1;
        acc.outcomes.insert(format!("{}:chunk:{}", cfg.kind.name(), obs.res.text().split('{').next().unwrap_or("")));
        let adjustable = cfg.kind.is_sinc();
        let valid = k >= 1 && k <= max;
        match &obs.res {
            Res::Panic(p) => viol(acc, cfg, &hist, "chunk-panic", format!("{}: {}", op.text(), p)),
            Res::Unit => {
                if !adjustable || !valid {
                    viol(acc, cfg, &hist, "chunk-accepted", format!("{} accepted (max {})", op.text(), max));
                } else {
                    // the next call consumes (fixed-in) / produces (fixed-out) exactly k
                    let g = a.r.getters();
                    let o2 = a.apply(Op::P);
                    acc.transitions += 1;
                    let ok = match (&o2.res, cfg.kind) {
                        (Res::Ok(i, _), Kind::SI) => *i == k && g.in_next == k,
                        (Res::Ok(_, o), Kind::SO) => *o == k && g.out_next == k,
                        _ => false,
                    };
                    if !ok {
                        viol(acc, cfg, &hist, "chunk-not-applied", format!("after {}, next P -> {} with getters {:?}", op.text(), o2.res.text(), g));
                    }
                }
            }
            Res::Err(e) => {
                let want = if !adjustable { "ChunkSizeNotAdjustable" } else { "InvalidChunkSize" };
                if adjustable && valid {
                    viol(acc, cfg, &hist, "chunk-rejected", format!("{} rejected: {}", op.text(), e.text()));
                } else if e.variant != want {
                    viol(acc, cfg, &hist, "chunk-wrong-variant", format!("{} -> {} (expected {})", op.text(), e.text(), want));
                } else if adjustable && (e.get("max") != Some(max as f64) || e.get("requested") != Some(k as f64)) {
                    viol(acc, cfg, &hist, "chunk-wrong-fields", format!("{} -> {}", op.text(), e.text()));
                }
                if !a.dead && !state_eq(&before, &a.state()) {
                    viol(acc, cfg, &hist, "chunk-reject-changed-state", format!("{} rejected but state changed", op.text()));
                }
            }
            _ => {}
        }
    }
    Ok(())
}

fn check_sync(acc: &mut Acc, journal: Option<&JournalFile>) -> Result<(), String> {
    for cfg in [
        Cfg::fft(Kind::XI, 3, 2, 12, 2),
        Cfg::fft(Kind::XO, 2, 3, 12, 2),
        Cfg::fft(Kind::XX, 147, 160, 100, 1),
    ] {
        for prefix in [vec![], vec![Op::P], vec![Op::P, Op::Z]] {
            acc.states += 1;
            let mut args = specials();
            args.extend([1.0, 0.5, 2.0, cfg.nominal_ratio(), 1e-3, 1e3]);
            for v in args {
                for ramp in [false, true] {
                    for op in [Op::Ra(v, ramp), Op::R(v, ramp)] {
                        let mut hist = prefix.clone();
                        hist.push(op);
                        if let Some(j) = journal {
                            j.write(&cfg.to_json(), &history_text(&hist));
                        }
                        let mut a = fresh(&cfg, &prefix)?;
                        let before = a.state();
                        let obs = a.apply(op);
                        acc.transitions += 1;
                        acc.outcomes.insert(format!("{}:{}", cfg.kind.name(), obs.res.text().split('{').next().unwrap_or("")));
                        match &obs.res {
                            Res::Err(e) if e.variant == "SyncNotAdjustable" => {}
                            other => viol(acc, &cfg, &hist, "sync-not-SyncNotAdjustable", format!("{} -> {}", op.text(), other.text())),
                        }
                        if !a.dead && !state_eq(&before, &a.state()) {
                            viol(acc, &cfg, &hist, "sync-changed-state", format!("{} changed the state", op.text()));
                        }
                    }
                }
            }
            check_chunk_calls(acc, &cfg, &prefix, journal)?;
        }
    }
    Ok(())
}

impl Check for C12 {
    fn id(&self) -> &'static str {
        "C12"
    }
    fn level(&self) -> &'static str {
        "model_checking"
    }
    fn engine(&self) -> &'static str {
        "E1 argument lattice applied in reached states of the real objects, exact-rational oracle"
    }
    fn n_items(&self, tier: Tier) -> usize {
        pairs(tier).len() + 2
    }
    fn run_item(&self, tier: Tier, idx: usize, journal: Option<&JournalFile>) -> Result<Value, String> {
        let ps = pairs(tier);
        if idx == ps.len() + 1 {
            // setters (and every other operation) on resamplers with zero channels: the same
            // answers as a one-channel twin
            return crate::ctrl::zero_channel_item("C12");
        }
        let mut acc = Acc {
            transitions: 0,
            states: 0,
            found: vec![],
            outcomes: Default::default(),
            must_accept: 0,
            must_reject: 0,
            samples: vec![],
        };
        if idx == ps.len() {
            check_sync(&mut acc, journal)?;
        } else {
            let (orig, m, chunk) = ps[idx];
            // the argument lattice
            let mut abs: Vec<f64> = Vec::new();
            for b in [orig * m, orig / m, orig * (1.0 / m)] {
                abs.extend(around(b));
            }
            abs.extend([orig, orig * (1.0 + m) / 2.0, orig / ((1.0 + m) / 2.0)]);
            // changes far below a per mille (a rate controller trimming for clock drift): they
            // are changes, and an accepted one has to be stored
            abs.extend([orig * (1.0 + 8.0e-10), orig * (1.0 + 9.0e-7), orig * (1.0 - 3.0e-7), next_up(orig), next_down(orig)]);
            abs.extend(specials());
            let mut rel: Vec<f64> = Vec::new();
            for b in [m, 1.0 / m] {
                rel.extend(around(b));
            }
            rel.extend([1.0, (1.0 + m) / 2.0, 2.0 / (1.0 + m)]);
            rel.extend([1.0 + 8.0e-10, 1.0 + 9.0e-7, 1.0 - 3.0e-7, next_up(1.0), next_down(1.0)]);
            rel.extend(specials());
            for cfg in cfgs_for(orig, m, chunk) {
                // at the ends of the f64 range only the setters are exercised (a processing call at
                // a ratio of 1e-300 is outside the explored bounds of every check)
                let extreme = !(1e-100..=1e100).contains(&orig);
                let pref = if extreme { vec![vec![], vec![Op::R(if m > 1.0 { (1.0 + m) / 2.0 } else { 1.0 }, true)]] } else { prefixes(m) };
                for prefix in pref {
                    acc.states += 1;
                    for &v in &abs {
                        for ramp in [false, true] {
                            check_ratio_call(&mut acc, &cfg, &prefix, Op::Ra(v, ramp), journal)?;
                        }
                    }
                    for &x in &rel {
                        for ramp in [false, true] {
                            check_ratio_call(&mut acc, &cfg, &prefix, Op::R(x, ramp), journal)?;
                        }
                    }
                    if !extreme {
                        check_chunk_calls(&mut acc, &cfg, &prefix, journal)?;
                    }
                }
                if acc.samples.is_empty() {
                    acc.samples.push(json!({"cfg": cfg.short(), "state": "P R(hi,T)", "abs_args": abs.iter().take(16).map(|x| format!("{:?}", x)).collect::<Vec<_>>(), "rel_args": rel.iter().take(12).map(|x| format!("{:?}", x)).collect::<Vec<_>>()}));
                }
            }
        }
        Ok(json!({
            "label": format!("C12 item {}", idx),
            "states": acc.states, "transitions": acc.transitions,
            "outcomes": acc.outcomes.iter().collect::<Vec<_>>(),
            "found": acc.found, "samples": acc.samples,
            "extra": {"must_accept": acc.must_accept, "must_reject": acc.must_reject},
        }))
    }
    fn finalize(&self, _tier: Tier, items: &[Value], cov: &mut Map<String, Value>) {
        let ma: u64 = items.iter().map(|v| v["extra"]["must_accept"].as_u64().unwrap_or(0)).sum();
        let mr: u64 = items.iter().map(|v| v["extra"]["must_reject"].as_u64().unwrap_or(0)).sum();
        cov.insert("ratio_arguments_oracle_must_accept".into(), json!(ma));
        cov.insert("ratio_arguments_oracle_must_reject".into(), json!(mr));
        cov.insert("states_note".into(), json!("states = (configuration, reached state) pairs in which the whole argument lattice was applied: fresh, ramp pending, after reset, after an earlier chunk-size and ratio change"));
    }
    fn replay(&self, replay: &Value) -> Result<(bool, String), String> {
        if replay.get("point").and_then(|x| x.as_str()) == Some("zero channels") {
            let v = crate::ctrl::zero_channel_item("C12")?;
            let sig = replay.get("signature").and_then(|x| x.as_str()).unwrap_or("");
            let hit = v["found"].as_array().map(|a| a.iter().any(|f| f["sig"] == sig && f["cfg"] == replay["cfg"])).unwrap_or(false);
            return Ok((hit, if hit { format!("    VIOLATES C12 [{}] (zero-channel walk)\n", sig) } else { "  the zero-channel walk finds nothing for this configuration\n".to_string() }));
        }
        let cfg = Cfg::from_json(&replay["cfg"])?;
        let hist = history_parse(replay["history"].as_str().ok_or("history missing")?)?;
        let (prefix, last) = hist.split_at(hist.len().saturating_sub(1));
        let mut acc = Acc {
            transitions: 0,
            states: 0,
            found: vec![],
            outcomes: Default::default(),
            must_accept: 0,
            must_reject: 0,
            samples: vec![],
        };
        let mut log = String::new();
        match last.first() {
            Some(op @ (Op::R(_, _) | Op::Ra(_, _))) if cfg.kind.is_async() => {
                check_ratio_call(&mut acc, &cfg, prefix, *op, None)?;
            }
            Some(Op::C(_)) => check_chunk_calls(&mut acc, &cfg, prefix, None)?,
            _ => check_sync(&mut acc, None)?,
        }
        for f in &acc.found {
            log.push_str(&format!("    VIOLATES C12 [{}] {} | {}\n", f["sig"].as_str().unwrap_or(""), f["history"].as_str().unwrap_or(""), f["detail"].as_str().unwrap_or("")));
        }
        Ok((!acc.found.is_empty(), log))
    }
    fn rule(&self, _tier: Tier) -> String {
        "for every (original ratio, max relative ratio) pair of the lattice x 4 asynchronous types x 4 reached states: the four bounds computed as a caller would, each +-1 and +-2 ulp, interior points and specials (NaN, +-inf, +-0, -1, MIN_POSITIVE, subnormal, MAX), ramp on/off, through both setters; every chunk size 0..=max+2 and usize extremes; synchronous types separately. A case is one executed setter call; distinct = distinct (type, oracle verdict, result) classes".into()
    }
    fn assumptions(&self) -> Vec<String> {
        vec![
            "the oracle compares exact rationals of the f64 operands (128-bit integer arithmetic); a bound equal to the f64 a caller obtains from original*max or original/max (1.0/max for the relative setter) counts as inside".into(),
            "setter behaviour does not depend on chunk size, filter length or sample type (one representative configuration per type)".into(),
        ]
    }
    fn vacuity(&self, _tier: Tier) -> (u64, u64) {
        (50, 6)
    }
}
