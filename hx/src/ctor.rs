//! C13, constructor half: invalid constructor arguments give the documented
//! ResamplerConstructionError, never a panic.

use rubato::{
    FastFixedIn, FastFixedOut, FftFixedIn, FftFixedInOut, FftFixedOut, PolynomialDegree,
    ResamplerConstructionError, Sample, SincFixedIn, SincFixedOut, SincInterpolationParameters,
    SincInterpolationType, WindowFunction,
};
use rubato::sinc_interpolator::ScalarInterpolator;
use serde_json::{json, Value};
use std::panic::{catch_unwind, AssertUnwindSafe};

fn params() -> SincInterpolationParameters {
    SincInterpolationParameters {
        sinc_len: 8,
        f_cutoff: 0.9,
        oversampling_factor: 2,
        interpolation: SincInterpolationType::Linear,
        window: WindowFunction::Hann,
    }
}

fn variant(e: &ResamplerConstructionError) -> String {
    match e {
        ResamplerConstructionError::InvalidSampleRate { input, output } => {
            format!("InvalidSampleRate({},{})", input, output)
        }
        ResamplerConstructionError::InvalidRelativeRatio(x) => format!("InvalidRelativeRatio({:?})", x),
        ResamplerConstructionError::InvalidRatio(x) => format!("InvalidRatio({:?})", x),
    }
}

fn outcome<R>(f: impl FnOnce() -> Result<R, ResamplerConstructionError>) -> String {
    match catch_unwind(AssertUnwindSafe(f)) {
        Ok(Ok(_)) => "accepted".into(),
        Ok(Err(e)) => variant(&e),
        Err(_) => "PANIC".into(),
    }
}

pub fn run<T: Sample>(tname: &str) -> (u64, Vec<Value>, Vec<String>) {
    let mut n = 0u64;
    let mut found = Vec::new();
    let mut outcomes = Vec::new();
    let bad_ratios = [0.0f64, -0.0, -1.0, f64::NEG_INFINITY, -f64::MIN_POSITIVE, -5e-324];
    let bad_rel = [0.999_999_999_999_999_9f64, 0.5, 0.0, -1.0, f64::NEG_INFINITY];
    let mut expect = |what: String, got: String, want: String| {
        n += 1;
        outcomes.push(format!("{}:{}", what.split('(').next().unwrap_or(""), got.split('(').next().unwrap_or("")));
        if got != want {
            found.push(json!({
                "prop": "C13", "sig": format!("ctor:{}", if got == "PANIC" { "panic" } else if got == "accepted" { "accepted" } else { "wrong-error" }),
                "detail": format!("{}<{}>: got {}, expected {}", what, tname, got, want),
                "cfg": {"kind": "FI", "ratio": 1.0, "max_rel": 1.0, "chunk": 8, "channels": 1, "degree": "Linear"},
                "history": "", "point": what,
            }));
        }
    };
    for &r in &bad_ratios {
        let want = format!("InvalidRatio({:?})", r);
        expect(format!("SincFixedIn::new({:?},2.0)", r), outcome(|| SincFixedIn::<T>::new(r, 2.0, params(), 16, 2)), want.clone());
        expect(format!("SincFixedOut::new({:?},2.0)", r), outcome(|| SincFixedOut::<T>::new(r, 2.0, params(), 16, 2)), want.clone());
        expect(format!("FastFixedIn::new({:?},2.0)", r), outcome(|| FastFixedIn::<T>::new(r, 2.0, PolynomialDegree::Cubic, 16, 2)), want.clone());
        expect(format!("FastFixedOut::new({:?},2.0)", r), outcome(|| FastFixedOut::<T>::new(r, 2.0, PolynomialDegree::Cubic, 16, 2)), want.clone());
    }
    for &m in &bad_rel {
        let want = format!("InvalidRelativeRatio({:?})", m);
        expect(format!("SincFixedIn::new(1.5,{:?})", m), outcome(|| SincFixedIn::<T>::new(1.5, m, params(), 16, 2)), want.clone());
        expect(format!("SincFixedOut::new(1.5,{:?})", m), outcome(|| SincFixedOut::<T>::new(1.5, m, params(), 16, 2)), want.clone());
        expect(format!("FastFixedIn::new(1.5,{:?})", m), outcome(|| FastFixedIn::<T>::new(1.5, m, PolynomialDegree::Cubic, 16, 2)), want.clone());
        expect(format!("FastFixedOut::new(1.5,{:?})", m), outcome(|| FastFixedOut::<T>::new(1.5, m, PolynomialDegree::Cubic, 16, 2)), want.clone());
    }
    // the constructors that take a ready-made interpolator are public too
    let interp = || Box::new(ScalarInterpolator::<T>::new(8, 2, 0.9, WindowFunction::Hann));
    for &r in &bad_ratios {
        let want = format!("InvalidRatio({:?})", r);
        expect(format!("SincFixedIn::new_with_interpolator({:?},2.0)", r), outcome(|| SincFixedIn::<T>::new_with_interpolator(r, 2.0, SincInterpolationType::Linear, interp(), 16, 2)), want.clone());
        expect(format!("SincFixedOut::new_with_interpolator({:?},2.0)", r), outcome(|| SincFixedOut::<T>::new_with_interpolator(r, 2.0, SincInterpolationType::Linear, interp(), 16, 2)), want.clone());
    }
    for &m in &bad_rel {
        let want = format!("InvalidRelativeRatio({:?})", m);
        expect(format!("SincFixedIn::new_with_interpolator(1.5,{:?})", m), outcome(|| SincFixedIn::<T>::new_with_interpolator(1.5, m, SincInterpolationType::Cubic, interp(), 16, 2)), want.clone());
        expect(format!("SincFixedOut::new_with_interpolator(1.5,{:?})", m), outcome(|| SincFixedOut::<T>::new_with_interpolator(1.5, m, SincInterpolationType::Cubic, interp(), 16, 2)), want.clone());
    }
    for (a, b) in [(0usize, 48000usize), (44100, 0), (0, 0)] {
        let want = format!("InvalidSampleRate({},{})", a, b);
        expect(format!("FftFixedIn::new({},{})", a, b), outcome(|| FftFixedIn::<T>::new(a, b, 64, 2, 2)), want.clone());
        expect(format!("FftFixedOut::new({},{})", a, b), outcome(|| FftFixedOut::<T>::new(a, b, 64, 2, 2)), want.clone());
        expect(format!("FftFixedInOut::new({},{})", a, b), outcome(|| FftFixedInOut::<T>::new(a, b, 64, 2)), want.clone());
    }
    // valid boundary arguments are accepted
    expect("FastFixedIn::new(MIN_POSITIVE-ish 1e-3,1.0)".into(), outcome(|| FastFixedIn::<T>::new(1e-3, 1.0, PolynomialDegree::Linear, 4, 1)), "accepted".into());
    expect("SincFixedOut::new(16.0,1.0)".into(), outcome(|| SincFixedOut::<T>::new(16.0, 1.0, params(), 4, 1)), "accepted".into());
    expect("FftFixedInOut::new(1,1)".into(), outcome(|| FftFixedInOut::<T>::new(1, 1, 8, 1)), "accepted".into());
    outcomes.sort();
    outcomes.dedup();
    (n, found, outcomes)
}
