//! Resampler configurations (constructor arguments) and their construction.

use crate::any::Any;
use crate::probe::IndexProbe;
use rubato::sinc_interpolator::sinc_interpolator_avx::AvxInterpolator;
use rubato::sinc_interpolator::sinc_interpolator_sse::SseInterpolator;
use rubato::sinc_interpolator::{ScalarInterpolator, SincInterpolator};
use rubato::{
    FastFixedIn, FastFixedOut, FftFixedIn, FftFixedInOut, FftFixedOut, PolynomialDegree, Sample,
    SincFixedIn, SincFixedOut, SincInterpolationParameters, SincInterpolationType, WindowFunction,
};
use serde_json::{json, Value};

#[derive(Clone, Copy, Debug, PartialEq, Eq, Hash, PartialOrd, Ord)]
pub enum Kind {
    SI,
    SO,
    FI,
    FO,
    XI,
    XO,
    XX,
}

impl Kind {
    pub const ALL: [Kind; 7] = [
        Kind::SI,
        Kind::SO,
        Kind::FI,
        Kind::FO,
        Kind::XI,
        Kind::XO,
        Kind::XX,
    ];
    pub fn name(self) -> &'static str {
        match self {
            Kind::SI => "SI",
            Kind::SO => "SO",
            Kind::FI => "FI",
            Kind::FO => "FO",
            Kind::XI => "XI",
            Kind::XO => "XO",
            Kind::XX => "XX",
        }
    }
    pub fn parse(s: &str) -> Option<Kind> {
        Kind::ALL.iter().copied().find(|k| k.name() == s)
    }
    pub fn is_sinc(self) -> bool {
        matches!(self, Kind::SI | Kind::SO)
    }
    pub fn is_fast(self) -> bool {
        matches!(self, Kind::FI | Kind::FO)
    }
    pub fn is_async(self) -> bool {
        self.is_sinc() || self.is_fast()
    }
    pub fn is_fft(self) -> bool {
        !self.is_async()
    }
    pub fn fixed_in(self) -> bool {
        matches!(self, Kind::SI | Kind::FI | Kind::XI | Kind::XX)
    }
    pub fn fixed_out(self) -> bool {
        matches!(self, Kind::SO | Kind::FO | Kind::XO | Kind::XX)
    }
}

#[derive(Clone, Copy, Debug, PartialEq, Eq, Hash)]
pub enum Interp {
    Cubic,
    Quadratic,
    Linear,
    Nearest,
}

impl Interp {
    pub const ALL: [Interp; 4] = [
        Interp::Cubic,
        Interp::Quadratic,
        Interp::Linear,
        Interp::Nearest,
    ];
    pub fn name(self) -> &'static str {
        match self {
            Interp::Cubic => "Cubic",
            Interp::Quadratic => "Quadratic",
            Interp::Linear => "Linear",
            Interp::Nearest => "Nearest",
        }
    }
    pub fn parse(s: &str) -> Option<Interp> {
        Interp::ALL.iter().copied().find(|k| k.name() == s)
    }
    pub fn to_rubato(self) -> SincInterpolationType {
        match self {
            Interp::Cubic => SincInterpolationType::Cubic,
            Interp::Quadratic => SincInterpolationType::Quadratic,
            Interp::Linear => SincInterpolationType::Linear,
            Interp::Nearest => SincInterpolationType::Nearest,
        }
    }
    /// Number of sinc evaluations per output frame and channel.
    pub fn points(self) -> usize {
        match self {
            Interp::Cubic => 4,
            Interp::Quadratic => 3,
            Interp::Linear => 2,
            Interp::Nearest => 1,
        }
    }
}

#[derive(Clone, Copy, Debug, PartialEq, Eq, Hash)]
pub enum Degree {
    Septic,
    Quintic,
    Cubic,
    Linear,
    Nearest,
}

impl Degree {
    pub const ALL: [Degree; 5] = [
        Degree::Septic,
        Degree::Quintic,
        Degree::Cubic,
        Degree::Linear,
        Degree::Nearest,
    ];
    pub fn name(self) -> &'static str {
        match self {
            Degree::Septic => "Septic",
            Degree::Quintic => "Quintic",
            Degree::Cubic => "Cubic",
            Degree::Linear => "Linear",
            Degree::Nearest => "Nearest",
        }
    }
    pub fn parse(s: &str) -> Option<Degree> {
        Degree::ALL.iter().copied().find(|k| k.name() == s)
    }
    pub fn to_rubato(self) -> PolynomialDegree {
        match self {
            Degree::Septic => PolynomialDegree::Septic,
            Degree::Quintic => PolynomialDegree::Quintic,
            Degree::Cubic => PolynomialDegree::Cubic,
            Degree::Linear => PolynomialDegree::Linear,
            Degree::Nearest => PolynomialDegree::Nearest,
        }
    }
    pub fn degree(self) -> usize {
        match self {
            Degree::Septic => 7,
            Degree::Quintic => 5,
            Degree::Cubic => 3,
            Degree::Linear => 1,
            Degree::Nearest => 0,
        }
    }
}

/// Which sinc kernel a sinc resampler is built with.
#[derive(Clone, Copy, Debug, PartialEq, Eq, Hash)]
pub enum Kernel {
    /// The harness' index probe (exact evaluation instants, recorded read ranges).
    Probe,
    /// Whatever `SincFixedIn::new` selects at run time.
    Dispatch,
    Scalar,
    Sse,
    Avx,
}

impl Kernel {
    pub const ALL: [Kernel; 5] = [
        Kernel::Probe,
        Kernel::Dispatch,
        Kernel::Scalar,
        Kernel::Sse,
        Kernel::Avx,
    ];
    pub fn name(self) -> &'static str {
        match self {
            Kernel::Probe => "Probe",
            Kernel::Dispatch => "Dispatch",
            Kernel::Scalar => "Scalar",
            Kernel::Sse => "Sse",
            Kernel::Avx => "Avx",
        }
    }
    pub fn parse(s: &str) -> Option<Kernel> {
        Kernel::ALL.iter().copied().find(|k| k.name() == s)
    }
}

pub const WINDOWS: [WindowFunction; 6] = [
    WindowFunction::Hann,
    WindowFunction::Hann2,
    WindowFunction::Blackman,
    WindowFunction::Blackman2,
    WindowFunction::BlackmanHarris,
    WindowFunction::BlackmanHarris2,
];

pub fn window_name(w: WindowFunction) -> &'static str {
    match w {
        WindowFunction::Hann => "Hann",
        WindowFunction::Hann2 => "Hann2",
        WindowFunction::Blackman => "Blackman",
        WindowFunction::Blackman2 => "Blackman2",
        WindowFunction::BlackmanHarris => "BlackmanHarris",
        WindowFunction::BlackmanHarris2 => "BlackmanHarris2",
    }
}

pub fn window_parse(s: &str) -> Option<WindowFunction> {
    WINDOWS.iter().copied().find(|w| window_name(*w) == s)
}

#[derive(Clone, Debug)]
pub struct Cfg {
    pub kind: Kind,
    // asynchronous
    pub ratio: f64,
    pub max_rel: f64,
    // synchronous
    pub rate_in: usize,
    pub rate_out: usize,
    pub sub_chunks: usize,
    // all
    pub chunk: usize,
    pub channels: usize,
    // sinc
    pub sinc_len: usize,
    pub oversampling: usize,
    pub interp: Interp,
    pub window: WindowFunction,
    pub f_cutoff: f32,
    pub kernel: Kernel,
    // fast
    pub degree: Degree,
}

impl Cfg {
    pub fn base(kind: Kind) -> Cfg {
        Cfg {
            kind,
            ratio: 1.0,
            max_rel: 1.0,
            rate_in: 1,
            rate_out: 1,
            sub_chunks: 1,
            chunk: 64,
            channels: 1,
            sinc_len: 8,
            oversampling: 2,
            interp: Interp::Cubic,
            window: WindowFunction::BlackmanHarris2,
            f_cutoff: 0.95,
            kernel: Kernel::Dispatch,
            degree: Degree::Septic,
        }
    }

    pub fn sinc(
        kind: Kind,
        ratio: f64,
        max_rel: f64,
        chunk: usize,
        sinc_len: usize,
        oversampling: usize,
        interp: Interp,
        kernel: Kernel,
    ) -> Cfg {
        let mut c = Cfg::base(kind);
        c.ratio = ratio;
        c.max_rel = max_rel;
        c.chunk = chunk;
        c.sinc_len = sinc_len;
        c.oversampling = oversampling;
        c.interp = interp;
        c.kernel = kernel;
        c
    }

    pub fn fast(kind: Kind, ratio: f64, max_rel: f64, chunk: usize, degree: Degree) -> Cfg {
        let mut c = Cfg::base(kind);
        c.ratio = ratio;
        c.max_rel = max_rel;
        c.chunk = chunk;
        c.degree = degree;
        c
    }

    pub fn fft(kind: Kind, rate_in: usize, rate_out: usize, chunk: usize, sub: usize) -> Cfg {
        let mut c = Cfg::base(kind);
        c.rate_in = rate_in;
        c.rate_out = rate_out;
        c.chunk = chunk;
        c.sub_chunks = sub;
        c.ratio = rate_out as f64 / rate_in as f64;
        c
    }

    pub fn with_channels(mut self, n: usize) -> Cfg {
        self.channels = n;
        self
    }

    /// Filter length in input frames (sinc: rounded up to a multiple of 8; fast: 8).
    pub fn filter_len(&self) -> usize {
        match self.kind {
            Kind::SI | Kind::SO if self.kernel == Kernel::Probe => self.sinc_len,
            Kind::SI | Kind::SO => 8 * ((self.sinc_len + 7) / 8),
            Kind::FI | Kind::FO => 8,
            _ => 0,
        }
    }

    /// The nominal output/input ratio.
    pub fn nominal_ratio(&self) -> f64 {
        if self.kind.is_async() {
            self.ratio
        } else {
            self.rate_out as f64 / self.rate_in as f64
        }
    }

    pub fn to_json(&self) -> Value {
        match self.kind {
            Kind::SI | Kind::SO => json!({
                "kind": self.kind.name(), "ratio": self.ratio, "max_rel": self.max_rel,
                "chunk": self.chunk, "channels": self.channels, "sinc_len": self.sinc_len,
                "oversampling": self.oversampling, "interp": self.interp.name(),
                "window": window_name(self.window), "f_cutoff": self.f_cutoff,
                "kernel": self.kernel.name(),
            }),
            Kind::FI | Kind::FO => json!({
                "kind": self.kind.name(), "ratio": self.ratio, "max_rel": self.max_rel,
                "chunk": self.chunk, "channels": self.channels, "degree": self.degree.name(),
            }),
            Kind::XI | Kind::XO => json!({
                "kind": self.kind.name(), "rate_in": self.rate_in, "rate_out": self.rate_out,
                "chunk": self.chunk, "sub_chunks": self.sub_chunks, "channels": self.channels,
            }),
            Kind::XX => json!({
                "kind": self.kind.name(), "rate_in": self.rate_in, "rate_out": self.rate_out,
                "chunk": self.chunk, "channels": self.channels,
            }),
        }
    }

    pub fn from_json(v: &Value) -> Result<Cfg, String> {
        let kind = Kind::parse(v["kind"].as_str().ok_or("cfg.kind missing")?)
            .ok_or("cfg.kind unknown")?;
        let mut c = Cfg::base(kind);
        let us = |k: &str, d: usize| v.get(k).and_then(|x| x.as_u64()).map(|x| x as usize).unwrap_or(d);
        let fl = |k: &str, d: f64| v.get(k).and_then(|x| x.as_f64()).unwrap_or(d);
        c.ratio = fl("ratio", 1.0);
        c.max_rel = fl("max_rel", 1.0);
        c.rate_in = us("rate_in", 1);
        c.rate_out = us("rate_out", 1);
        c.sub_chunks = us("sub_chunks", 1);
        c.chunk = us("chunk", 64);
        c.channels = us("channels", 1);
        c.sinc_len = us("sinc_len", 8);
        c.oversampling = us("oversampling", 2);
        if let Some(s) = v.get("interp").and_then(|x| x.as_str()) {
            c.interp = Interp::parse(s).ok_or("cfg.interp unknown")?;
        }
        if let Some(s) = v.get("window").and_then(|x| x.as_str()) {
            c.window = window_parse(s).ok_or("cfg.window unknown")?;
        }
        c.f_cutoff = fl("f_cutoff", 0.95) as f32;
        if let Some(s) = v.get("kernel").and_then(|x| x.as_str()) {
            c.kernel = Kernel::parse(s).ok_or("cfg.kernel unknown")?;
        }
        if let Some(s) = v.get("degree").and_then(|x| x.as_str()) {
            c.degree = Degree::parse(s).ok_or("cfg.degree unknown")?;
        }
        if kind.is_fft() {
            c.ratio = c.rate_out as f64 / c.rate_in as f64;
        }
        Ok(c)
    }

    pub fn short(&self) -> String {
        match self.kind {
            Kind::SI | Kind::SO => format!(
                "{}(r={:?},m={:?},L={},os={},{},{},chunk={},ch={})",
                self.kind.name(),
                self.ratio,
                self.max_rel,
                self.sinc_len,
                self.oversampling,
                self.interp.name(),
                self.kernel.name(),
                self.chunk,
                self.channels
            ),
            Kind::FI | Kind::FO => format!(
                "{}(r={:?},m={:?},{},chunk={},ch={})",
                self.kind.name(),
                self.ratio,
                self.max_rel,
                self.degree.name(),
                self.chunk,
                self.channels
            ),
            Kind::XI | Kind::XO => format!(
                "{}({}->{},chunk={},sub={},ch={})",
                self.kind.name(),
                self.rate_in,
                self.rate_out,
                self.chunk,
                self.sub_chunks,
                self.channels
            ),
            Kind::XX => format!(
                "XX({}->{},chunk={},ch={})",
                self.rate_in, self.rate_out, self.chunk, self.channels
            ),
        }
    }

    fn sinc_params(&self) -> SincInterpolationParameters {
        SincInterpolationParameters {
            sinc_len: self.sinc_len,
            f_cutoff: self.f_cutoff,
            oversampling_factor: self.oversampling,
            interpolation: self.interp.to_rubato(),
            window: self.window,
        }
    }

    /// The explicit kernel for `new_with_interpolator`, mirroring `make_interpolator`'s
    /// parameter preparation (length rounding, cutoff scaling when downsampling).
    fn explicit_kernel<T: Sample>(&self) -> Result<Box<dyn SincInterpolator<T>>, String> {
        let sinc_len = 8 * (((self.sinc_len as f32) / 8.0).ceil() as usize);
        let f_cutoff = if self.ratio >= 1.0 {
            self.f_cutoff
        } else {
            self.f_cutoff * self.ratio as f32
        };
        Ok(match self.kernel {
            // a custom interpolator may have any length: the probe keeps the configured one
            Kernel::Probe => Box::new(IndexProbe::new(self.sinc_len, self.oversampling)),
            Kernel::Scalar => Box::new(ScalarInterpolator::<T>::new(
                sinc_len,
                self.oversampling,
                f_cutoff,
                self.window,
            )),
            Kernel::Sse => Box::new(
                SseInterpolator::<T>::new(sinc_len, self.oversampling, f_cutoff, self.window)
                    .map_err(|e| format!("{}", e))?,
            ),
            Kernel::Avx => Box::new(
                AvxInterpolator::<T>::new(sinc_len, self.oversampling, f_cutoff, self.window)
                    .map_err(|e| format!("{}", e))?,
            ),
            Kernel::Dispatch => unreachable!(),
        })
    }

    /// Construct the real resampler.
    pub fn build<T: Sample>(&self) -> Result<Any<T>, String> {
        let e = |x: rubato::ResamplerConstructionError| format!("{}", x);
        Ok(match self.kind {
            Kind::SI => {
                if self.kernel == Kernel::Dispatch {
                    Any::SI(
                        SincFixedIn::new(
                            self.ratio,
                            self.max_rel,
                            self.sinc_params(),
                            self.chunk,
                            self.channels,
                        )
                        .map_err(e)?,
                    )
                } else {
                    Any::SI(
                        SincFixedIn::new_with_interpolator(
                            self.ratio,
                            self.max_rel,
                            self.interp.to_rubato(),
                            self.explicit_kernel::<T>()?,
                            self.chunk,
                            self.channels,
                        )
                        .map_err(e)?,
                    )
                }
            }
            Kind::SO => {
                if self.kernel == Kernel::Dispatch {
                    Any::SO(
                        SincFixedOut::new(
                            self.ratio,
                            self.max_rel,
                            self.sinc_params(),
                            self.chunk,
                            self.channels,
                        )
                        .map_err(e)?,
                    )
                } else {
                    Any::SO(
                        SincFixedOut::new_with_interpolator(
                            self.ratio,
                            self.max_rel,
                            self.interp.to_rubato(),
                            self.explicit_kernel::<T>()?,
                            self.chunk,
                            self.channels,
                        )
                        .map_err(e)?,
                    )
                }
            }
            Kind::FI => Any::FI(
                FastFixedIn::new(
                    self.ratio,
                    self.max_rel,
                    self.degree.to_rubato(),
                    self.chunk,
                    self.channels,
                )
                .map_err(e)?,
            ),
            Kind::FO => Any::FO(
                FastFixedOut::new(
                    self.ratio,
                    self.max_rel,
                    self.degree.to_rubato(),
                    self.chunk,
                    self.channels,
                )
                .map_err(e)?,
            ),
            Kind::XI => Any::XI(
                FftFixedIn::new(
                    self.rate_in,
                    self.rate_out,
                    self.chunk,
                    self.sub_chunks,
                    self.channels,
                )
                .map_err(e)?,
            ),
            Kind::XO => Any::XO(
                FftFixedOut::new(
                    self.rate_in,
                    self.rate_out,
                    self.chunk,
                    self.sub_chunks,
                    self.channels,
                )
                .map_err(e)?,
            ),
            Kind::XX => Any::XX(
                FftFixedInOut::new(self.rate_in, self.rate_out, self.chunk, self.channels)
                    .map_err(e)?,
            ),
        })
    }
}
