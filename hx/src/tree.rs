//! Unmerged history trees on the real code:
//!  C11 — channel independence and masks
//!  C16 — wrappers equal the core call; partial processing equals zero padding

use crate::any::fp_full;
use crate::cfg::{Cfg, Degree, Interp, Kernel, Kind};
use crate::frame::{Check, JournalFile, Tier};
use crate::ops::{history_parse, history_text, Op};
use crate::run::{Flt, Res, Runner, Signal};
use rubato::VecResampler;
use serde_json::{json, Map, Value};

fn lattice(_tier: Tier, channels: &[usize]) -> Vec<Cfg> {
    // the quick tier uses the full configuration lattice too (it costs seconds); tiers differ in depth
    let q = false;
    let mut v = Vec::new();
    let ratios: Vec<f64> = if q { vec![0.5] } else { vec![0.5, 147.0 / 160.0, 2.0] };
    for &n in channels {
        // every sinc interpolation type on both variants, with few sub-filters and a ratio above
        // the oversampling factor (consecutive frames then hit the same sub-filter point)
        for kind in [Kind::SI, Kind::SO] {
            for interp in Interp::ALL {
                v.push(Cfg::sinc(kind, 3.0, 2.0, 6, 8, 2, interp, Kernel::Dispatch).with_channels(n));
            }
        }
        for kind in [Kind::FI, Kind::FO] {
            for d in [Degree::Quintic, Degree::Linear, Degree::Nearest] {
                v.push(Cfg::fast(kind, 3.0, 2.0, 6, d).with_channels(n));
            }
        }
        // dyadic step with an odd oversampling factor: only some frames fall on the sub-filter grid
        for kind in [Kind::SI, Kind::SO] {
            v.push(Cfg::sinc(kind, 2.0, 2.0, 6, 8, 3, Interp::Cubic, Kernel::Dispatch).with_channels(n));
            v.push(Cfg::sinc(kind, 4.0, 2.0, 5, 8, 2, Interp::Quadratic, Kernel::Dispatch).with_channels(n));
        }
        for &r in &ratios {
            v.push(Cfg::sinc(Kind::SI, r, 2.0, 8, 8, 2, Interp::Cubic, Kernel::Dispatch).with_channels(n));
            v.push(Cfg::sinc(Kind::SO, r, 2.0, 8, 8, 2, Interp::Linear, Kernel::Dispatch).with_channels(n));
            v.push(Cfg::fast(Kind::FI, r, 2.0, 8, Degree::Septic).with_channels(n));
            v.push(Cfg::fast(Kind::FO, r, 2.0, 8, Degree::Cubic).with_channels(n));
            if !q {
                v.push(Cfg::sinc(Kind::SI, r, 2.0, 5, 16, 4, Interp::Nearest, Kernel::Scalar).with_channels(n));
                v.push(Cfg::sinc(Kind::SO, r, 2.0, 5, 16, 4, Interp::Quadratic, Kernel::Sse).with_channels(n));
                v.push(Cfg::fast(Kind::FI, r, 2.0, 3, Degree::Linear).with_channels(n));
                v.push(Cfg::fast(Kind::FO, r, 2.0, 3, Degree::Nearest).with_channels(n));
            }
        }
        v.push(Cfg::fft(Kind::XI, 3, 2, 12, 2).with_channels(n));
        v.push(Cfg::fft(Kind::XO, 2, 3, 12, 2).with_channels(n));
        v.push(Cfg::fft(Kind::XX, 3, 2, 12, 1).with_channels(n));
        // configurations that carry saved frames from call to call (chunk not a multiple of the block)
        v.push(Cfg::fft(Kind::XI, 3, 2, 10, 2).with_channels(n));
        v.push(Cfg::fft(Kind::XI, 147, 160, 100, 1).with_channels(n));
        v.push(Cfg::fft(Kind::XO, 2, 3, 10, 2).with_channels(n));
        // block sizes whose forward FFT works in place on its input buffer (10, 20, 30, 40)
        if n >= 2 {
            v.push(Cfg::fft(Kind::XX, 1, 2, 10, 1).with_channels(n));
            v.push(Cfg::fft(Kind::XI, 1, 2, 20, 1).with_channels(n));
            v.push(Cfg::fft(Kind::XX, 3, 1, 30, 1).with_channels(n));
            v.push(Cfg::fft(Kind::XO, 1, 1, 40, 1).with_channels(n));
        }
        if !q {
            v.push(Cfg::fft(Kind::XI, 2, 3, 10, 1).with_channels(n));
            v.push(Cfg::fft(Kind::XO, 3, 2, 7, 1).with_channels(n));
            v.push(Cfg::fft(Kind::XX, 147, 160, 100, 1).with_channels(n));
        }
    }
    v
}

fn c11_channels(tier: Tier) -> &'static [usize] {
    if tier == Tier::Quick {
        &[1, 2, 3, 8]
    } else {
        &[1, 2, 3, 5, 8]
    }
}

fn c16_channels(tier: Tier) -> &'static [usize] {
    if tier == Tier::Quick {
        &[2]
    } else {
        &[1, 2, 3]
    }
}

fn alphabet(cfg: &Cfg, with_partial: bool) -> Vec<Op> {
    let mut a = vec![Op::P];

    if cfg.kind.is_async() {
        a.push(Op::R(cfg.max_rel, true));
        a.push(Op::R(1.0 / cfg.max_rel, false));
    }
    if cfg.kind.is_sinc() {
        a.push(Op::C((cfg.chunk / 2).max(1)));
        // and back to the constructor's size (shrink, process, grow, process)
        a.push(Op::C(cfg.chunk));
    }
    a.push(Op::Z);
    if with_partial {
        a.push(Op::PP(Some(1)));
    }
    a
}

fn histories(alpha: &[Op], depth: usize) -> Vec<Vec<Op>> {
    let mut out: Vec<Vec<Op>> = vec![vec![]];
    for _ in 0..depth {
        let mut next = Vec::new();
        for h in &out {
            for op in alpha {
                let mut h2 = h.clone();
                h2.push(*op);
                next.push(h2);
            }
        }
        out = next;
    }
    out
}

type StepRec = (String, Vec<Vec<u64>>, crate::any::Getters, Vec<usize>);

/// Run a history; per step: (result text, output bits per channel, getters after, cells touched per channel).
fn trace<T: Flt>(cfg: &Cfg, sig: Signal, hist: &[Op]) -> Result<Vec<StepRec>, String> {
    let mut r = Runner::<T>::new(cfg, sig)?;
    r.keep_out = true;
    let mut t = Vec::new();
    for op in hist {
        let o = r.apply(*op);
        let res = match &o.res {
            Res::Panic(m) => format!("PANIC({})", crate::run::classify(m)),
            other => other.text(),
        };
        t.push((
            res,
            o.out.iter().map(|c| c.iter().map(|x| x.to_bits()).collect()).collect(),
            o.after,
            o.written.iter().map(|w| w.touched).collect(),
        ));
        if r.dead {
            break;
        }
    }
    Ok(t)
}

struct Acc {
    evals: u64,
    steps: u64,
    found: Vec<Value>,
    outcomes: Vec<String>,
    samples: Vec<Value>,
}

impl Acc {
    fn new() -> Acc {
        Acc { evals: 0, steps: 0, found: vec![], outcomes: vec![], samples: vec![] }
    }
    fn fail(&mut self, prop: &str, cfg: &Cfg, hist: &[Op], sig: &str, detail: String) {
        if self.found.iter().filter(|f| f["sig"] == sig).count() < 10 {
            self.found.push(json!({"prop": prop, "sig": sig, "detail": detail, "cfg": cfg.to_json(), "history": history_text(hist)}));
        }
    }
    fn json(mut self, label: String) -> Value {
        self.outcomes.sort();
        self.outcomes.dedup();
        json!({"label": label, "states": self.evals, "transitions": self.steps, "evaluations": self.evals,
               "outcomes": self.outcomes, "found": self.found, "samples": self.samples})
    }
}

// ------------------------------------------------------------------------------------------
// C11
// ------------------------------------------------------------------------------------------

pub struct C11;

fn masks_for(n: usize) -> Vec<u32> {
    if n <= 3 {
        (0..(1u32 << n)).collect()
    } else {
        let all = (1u32 << n) - 1;
        let mut v = vec![all, 0];
        for c in 0..n {
            v.push(1 << c);
            v.push(all & !(1 << c));
        }
        v.push(0x5555_5555 & all);
        v.sort();
        v.dedup();
        v
    }
}

fn c11_one(acc: &mut Acc, cfg: &Cfg, depth: usize, journal: Option<&JournalFile>) -> Result<(), String> {
    let n = cfg.channels;
    // (a) n channels == n single-channel twins
    let alpha = alphabet(cfg, true);
    let mut hs = histories(&alpha, depth);
    if n >= 2 {
        // calls in which every channel is handed the very same input slice (pointer-equal: mono
        // material routed to all channels), after and between calls with their own data
        hs.extend([
            vec![Op::P, Op::Pa],
            vec![Op::P, Op::Pa, Op::P],
            vec![Op::Pa, Op::P, Op::Pa],
            vec![Op::P, Op::P, Op::Pa, Op::Pa],
            vec![Op::P, Op::Z, Op::Pa, Op::P],
        ]);
    }
    let mut single = cfg.clone();
    single.channels = 1;
    let mut hist_no = 0usize;
    for h in &hs {
        if let Some(j) = journal {
            j.write(&cfg.to_json(), &history_text(h));
        }
        let multi = trace::<f64>(cfg, Signal::Noise, h)?;
        // the same run with NaN in every 7th sample of the last channel: the other channels
        // must not notice (a value of one channel that reaches another one with weight zero
        // is invisible with finite data)
        let poisoned = if n >= 2 { Some(trace::<f64>(cfg, Signal::NoisePoisonLast(n - 1), h)?) } else { None };
        acc.evals += 1;
        acc.steps += multi.len() as u64;
        for c in 0..n {
            let one = trace::<f64>(&single, Signal::NoiseCh(c), h)?;
            acc.steps += one.len() as u64;
            if let (Some(p), true) = (&poisoned, c + 1 < n) {
                for (i, (m, o)) in p.iter().zip(one.iter()).enumerate() {
                    if m.1.get(c).map(|x| x.as_slice()) != o.1.first().map(|x| x.as_slice()) {
                        acc.fail("C11", cfg, &h[..=i.min(h.len() - 1)], "channel-affected-by-nan-in-another-channel",
                            format!("step {}: channel {} of the {}-channel resampler differs from its single-channel twin when channel {} carries NaN samples", i, c, n, n - 1));
                        break;
                    }
                }
            }
            for (i, (m, o)) in multi.iter().zip(one.iter()).enumerate() {
                let same_res = m.0 == o.0;
                let same_out = m.1.get(c).map(|x| x.as_slice()) == o.1.first().map(|x| x.as_slice());
                let g_same = m.2.in_next == o.2.in_next && m.2.out_next == o.2.out_next && m.2.in_max == o.2.in_max && m.2.out_max == o.2.out_max;
                if !(same_res && same_out && g_same) {
                    acc.fail("C11", cfg, &h[..=i.min(h.len() - 1)], "channel-differs-from-single-channel-twin",
                        format!("step {}: channel {} of the {}-channel resampler {} (result {} vs {})", i, c, n,
                            if !same_out { "produces different samples than a single-channel resampler fed the same data" } else { "reports different counts" }, m.0, o.0));
                    break;
                }
            }
        }
        acc.outcomes.push(format!("{}:{}", cfg.kind.name(), multi.last().map(|x| x.0.split('(').next().unwrap_or("").to_string()).unwrap_or_default()));
        // the same comparison on spectrally trivial signals, a different one in every channel
        // (click per block, on/off, constant, alternating sign)
        hist_no += 1;
        if n >= 2 && (cfg.kind.is_fft() || hist_no % 4 == 0) {
            let period = if cfg.kind.is_fft() { crate::kf::fft_sizes(cfg).0.max(1) } else { cfg.chunk };
            let multi_t = trace::<f64>(cfg, Signal::Trivial(0, period), h)?;
            acc.evals += 1;
            acc.steps += multi_t.len() as u64;
            for c in 0..n {
                let one = trace::<f64>(&single, Signal::Trivial(c, period), h)?;
                for (i, (m, o)) in multi_t.iter().zip(one.iter()).enumerate() {
                    if m.0 != o.0 || m.1.get(c).map(|x| x.as_slice()) != o.1.first().map(|x| x.as_slice()) {
                        acc.fail("C11", cfg, &h[..=i.min(h.len() - 1)], "channel-differs-from-single-channel-twin",
                            format!("step {}: channel {} of the {}-channel resampler differs from a single-channel resampler fed the same data (spectrally trivial signals: click per block / on-off / constant / alternating sign in channels 0..3)", i, c, n));
                        break;
                    }
                }
            }
        }
    }
    // (b) constant masks
    let alpha_m = alphabet(cfg, true);
    let hs_m = histories(&alpha_m, depth);
    for h in &hs_m {
        let unmasked = trace::<f64>(cfg, Signal::Noise, h)?;
        for mask in masks_for(n) {
            for empty in [true, false] {
                let hm: Vec<Op> = h
                    .iter()
                    .map(|op| match *op {
                        Op::P => Op::PM(mask, empty),
                        Op::PP(Some(k)) => Op::PPM(mask, k, empty),
                        o => o,
                    })
                    .collect();
                if let Some(j) = journal {
                    j.write(&cfg.to_json(), &history_text(&hm));
                }
                let masked = trace::<f64>(cfg, Signal::Noise, &hm)?;
                acc.evals += 1;
                acc.steps += masked.len() as u64;
                for (i, (u, m)) in unmasked.iter().zip(masked.iter()).enumerate() {
                    if u.0 != m.0 {
                        acc.fail("C11", cfg, &hm[..=i], "mask-changes-result", format!("step {}: {} with mask {:b} vs {} without", i, m.0, mask, u.0));
                        break;
                    }
                    let mut bad = false;
                    for c in 0..n {
                        let active = (mask >> c) & 1 == 1;
                        if hm[i] == Op::PM(mask, empty) || matches!(hm[i], Op::PPM(_, _, _)) {
                            if active {
                                if u.1.get(c) != m.1.get(c) {
                                    acc.fail("C11", cfg, &hm[..=i], "mask-changes-active-channel", format!("step {}: active channel {} differs from the unmasked run (mask {:b})", i, c, mask));
                                    bad = true;
                                }
                            } else if m.3.get(c).copied().unwrap_or(0) != 0 {
                                acc.fail("C11", cfg, &hm[..=i], "inactive-channel-written", format!("step {}: {} cells of inactive channel {} were written (mask {:b})", i, m.3[c], c, mask));
                                bad = true;
                            }
                        }
                    }
                    if u.2 != m.2 {
                        acc.fail("C11", cfg, &hm[..=i], "mask-changes-counts", format!("step {}: getters {:?} with mask {:b} vs {:?}", i, m.2, mask, u.2));
                        bad = true;
                    }
                    if bad {
                        break;
                    }
                }
            }
        }
    }
    // (c) one constant mask per stream: mask A up to a reset, mask B (all channels given
    // explicitly, or the complement of A) after it - what the first stream's mask left behind
    // must not show in the second stream
    if n >= 2 {
        let all = (1u32 << n) - 1;
        for h in &hs_m {
            let Some(z) = h.iter().position(|o| *o == Op::Z) else { continue };
            if !h[..z].iter().any(|o| *o == Op::P) || !h[z + 1..].iter().any(|o| matches!(o, Op::P | Op::PP(_))) {
                continue;
            }
            let unmasked = trace::<f64>(cfg, Signal::Noise, h)?;
            for mask_a in masks_for(n) {
                if mask_a == all {
                    continue;
                }
                for mask_b in [all, all & !mask_a] {
                    let hm: Vec<Op> = h
                        .iter()
                        .enumerate()
                        .map(|(i, op)| {
                            let m = if i < z { mask_a } else { mask_b };
                            match *op {
                                Op::P => Op::PM(m, false),
                                Op::PP(Some(k)) => Op::PPM(m, k, false),
                                o => o,
                            }
                        })
                        .collect();
                    if let Some(j) = journal {
                        j.write(&cfg.to_json(), &history_text(&hm));
                    }
                    let masked = trace::<f64>(cfg, Signal::Noise, &hm)?;
                    acc.evals += 1;
                    acc.steps += masked.len() as u64;
                    for i in z + 1..unmasked.len().min(masked.len()) {
                        let (u, m) = (&unmasked[i], &masked[i]);
                        let mut bad = u.0 != m.0 || u.2 != m.2;
                        if matches!(hm[i], Op::PM(_, _) | Op::PPM(_, _, _)) {
                            for c in 0..n {
                                if (mask_b >> c) & 1 == 1 && u.1.get(c) != m.1.get(c) {
                                    bad = true;
                                }
                            }
                        }
                        if bad {
                            acc.fail("C11", cfg, &hm[..=i], "mask-of-earlier-stream-shows-after-reset", format!("step {}: a stream under mask {:b} that follows reset() differs (results, counts or active channels) from the same stream on a resampler whose earlier stream ran without a mask (earlier mask {:b})", i, mask_b, mask_a));
                            break;
                        }
                    }
                }
            }
        }
    }
    if acc.samples.len() < 2 {
        acc.samples.push(json!({"cfg": cfg.short(), "histories": hs.len(), "masked_histories": hs_m.len() * masks_for(n).len() * 2, "example": hs.last().map(|h| history_text(h))}));
    }
    Ok(())
}

impl Check for C11 {
    fn id(&self) -> &'static str {
        "C11"
    }
    fn level(&self) -> &'static str {
        "model_checking"
    }
    fn engine(&self) -> &'static str {
        "E1 unmerged: every history over the alphabet up to the depth, executed on n-channel objects, single-channel twins and every constant mask"
    }
    fn n_items(&self, tier: Tier) -> usize {
        lattice(tier, c11_channels(tier)).len()
    }
    fn run_item(&self, tier: Tier, idx: usize, journal: Option<&JournalFile>) -> Result<Value, String> {
        let cfg = lattice(tier, c11_channels(tier)).into_iter().nth(idx).ok_or("no item")?;
        let mut acc = Acc::new();
        let depth = match (tier, cfg.channels) {
            (Tier::Quick, 8) => 4,
            (Tier::Quick, _) => 5,
            (Tier::Thorough, 8) => 5,
            (Tier::Thorough, _) => 6,
        };
        c11_one(&mut acc, &cfg, depth, journal)?;
        Ok(acc.json(cfg.short()))
    }
    fn finalize(&self, tier: Tier, _items: &[Value], cov: &mut Map<String, Value>) {
        cov.insert("history_depth".into(), json!(if tier == Tier::Quick { "5 (4 for 8 channels)" } else { "6 (5 for 8 channels)" }));
        cov.insert("states_note".into(), json!("states = complete histories executed on the multi-channel object (each also on n single-channel twins or under one mask); transitions = real API calls"));
    }
    fn replay(&self, replay: &Value) -> Result<(bool, String), String> {
        crate::frame::replay_by_item(self, replay)
    }
    fn rule(&self, _tier: Tier) -> String {
        "all sequences of exactly the stated depth over {P, R(max,ramp), R(1/max), C(max/2), Z, PP(1)} (prefixes are checked step by step), distinct pseudo-random signal per channel: (a) channel c of the n-channel run is bit-identical to a single-channel twin fed channel c; (b) for every constant mask (all 2^n for n<=3; all/none/single/all-but-one/alternating for n=8), inactive channels passed as empty slices and as sentinel-filled slices: same results and counts, active outputs bit-identical to the unmasked run, inactive outputs untouched".into()
    }
    fn assumptions(&self) -> Vec<String> {
        vec!["bit-identical comparison; sentinel cells detect any write to an inactive channel".into()]
    }
    fn vacuity(&self, _tier: Tier) -> (u64, u64) {
        (500, 3)
    }
}

// ------------------------------------------------------------------------------------------
// C16
// ------------------------------------------------------------------------------------------

pub struct C16;

/// Ratios of the chunk-size sweep (decimal fractions that are not exact in binary).
const SWEEP_RATIOS: [f64; 8] = [0.7, 0.35, 0.9, 1.1, 0.3, 0.6, 1.7, 44100.0 / 48000.0];

fn input_for<T: Flt>(r: &Runner<T>, frames: usize) -> Vec<Vec<T>> {
    (0..r.cfg.channels)
        .map(|ch| (0..frames).map(|i| T::from64(r.sig.at(ch, r.pos + i))).collect())
        .collect()
}

fn mat<T: Flt>(cfg: &Cfg, hist: &[Op]) -> Result<Runner<T>, String> {
    let mut r = Runner::<T>::new(cfg, Signal::Noise)?;
    r.replay(hist);
    Ok(r)
}

fn bits<T: Flt>(v: &[Vec<T>], upto: usize) -> Vec<Vec<u64>> {
    v.iter().map(|c| c.iter().take(upto).map(|x| x.bits64()).collect()).collect()
}

fn res_text<A>(r: &rubato::ResampleResult<A>) -> String {
    match r {
        Ok(_) => "Ok".into(),
        Err(e) => format!("Err({})", crate::run::ErrInfo::from(e).text()),
    }
}

fn res_text2(r: &rubato::ResampleResult<(usize, usize)>) -> String {
    match r {
        Ok(v) => format!("Ok{:?}", v),
        Err(e) => format!("Err({})", crate::run::ErrInfo::from(e).text()),
    }
}

fn c16_state<T: Flt>(acc: &mut Acc, cfg: &Cfg, h: &[Op]) -> Result<(), String> {
    let n = cfg.channels;
    let probe = mat::<T>(cfg, h)?;
    if probe.dead {
        return Ok(());
    }
    let g = probe.r.getters();
    let (next, onext, omax) = (g.in_next, g.out_next, g.out_max);
    let sent = T::sentinel();
    let masks: Vec<Option<Vec<bool>>> = {
        let mut m: Vec<Option<Vec<bool>>> = vec![None];
        for bitsm in 0..(1u32 << n) {
            m.push(Some((0..n).map(|c| (bitsm >> c) & 1 == 1).collect()));
        }
        m
    };
    // (1) process() == process_into_buffer, for every mask
    for mask in &masks {
        let mut a = mat::<T>(cfg, h)?;
        let mut b = mat::<T>(cfg, h)?;
        let input = input_for(&a, next);
        let mut out_a: Vec<Vec<T>> = vec![vec![sent; omax + 4]; n];
        let ra = a.r.process_into_buffer(&input, &mut out_a, mask.as_deref());
        let rb = b.r.process(&input, mask.as_deref());
        acc.steps += 2;
        acc.evals += 1;
        match (&ra, &rb) {
            (Ok((_, o)), Ok(v)) => {
                for c in 0..n {
                    let active = mask.as_ref().map(|m| m[c]).unwrap_or(true);
                    if active {
                        if v[c].len() != *o || bits(&v[c..=c], *o) != bits(&out_a[c..=c], *o) {
                            acc.fail("C16", cfg, h, "process!=process_into_buffer", format!("mask {:?}: channel {} of process() has {} frames, process_into_buffer wrote {}; values equal: {}", mask, c, v[c].len(), o, bits(&v[c..=c], *o) == bits(&out_a[c..=c], *o)));
                        }
                    } else if !v[c].is_empty() {
                        acc.fail("C16", cfg, h, "process-masked-channel-not-empty", format!("mask {:?}: masked channel {} has {} frames", mask, c, v[c].len()));
                    }
                }
                if fp_full(&a.state()) != fp_full(&b.state()) {
                    acc.fail("C16", cfg, h, "process-leaves-different-state", format!("mask {:?}", mask));
                }
                acc.outcomes.push(format!("{}:process:ok", cfg.kind.name()));
            }
            _ => {
                if res_text(&ra) != res_text(&rb) {
                    acc.fail("C16", cfg, h, "process-result-differs", format!("mask {:?}: {} vs {}", mask, res_text(&ra), res_text(&rb)));
                }
                acc.outcomes.push(format!("{}:process:err", cfg.kind.name()));
            }
        }
    }
    // (1b) process() == process_into_buffer on input the core call rejects: same error, same
    // (unchanged) state
    for shape in 0..3u8 {
        let mut a = mat::<T>(cfg, h)?;
        let mut b = mat::<T>(cfg, h)?;
        let mut input = input_for(&a, next);
        let what = match shape {
            0 => {
                if next == 0 {
                    continue;
                }
                input[n - 1].truncate(next - 1);
                "last channel one frame short"
            }
            1 => {
                input.push(vec![T::from64(0.5); next]);
                "one input channel too many"
            }
            _ => {
                input.pop();
                "one input channel missing"
            }
        };
        let mut out_a: Vec<Vec<T>> = vec![vec![sent; omax + 4]; n];
        let ra = a.r.process_into_buffer(&input, &mut out_a, None);
        let rb = b.r.process(&input, None);
        acc.steps += 2;
        acc.evals += 1;
        if res_text(&ra) != res_text(&rb) {
            acc.fail("C16", cfg, h, "process-result-differs", format!("{}: process_into_buffer {} vs process() {}", what, res_text(&ra), res_text(&rb)));
        } else if fp_full(&a.state()) != fp_full(&b.state()) {
            acc.fail("C16", cfg, h, "process-leaves-different-state", format!("{}", what));
        }
        acc.outcomes.push(format!("{}:process:rejected-input", cfg.kind.name()));
    }
    // (2) partial Some(x) == zero padded / truncated chunk, (3) None == zero chunk, (4) process_partial
    let mut lens: Vec<Option<usize>> = vec![None];
    if next <= 64 {
        lens.extend((0..next).map(Some));
    } else {
        lens.extend([0, 1, next / 2, next - 1].into_iter().map(Some));
    }
    lens.push(Some(next));
    lens.push(Some(next + 3));
    // shape of the partial input: 0 = all channels `len` frames; 1 = inactive channels supplied
    // empty (as the crate's own tests supply masked channels); 2 = ragged, channel c has
    // len - c frames (each channel is zero padded on its own)
    let mut cases: Vec<(Option<usize>, Option<Vec<bool>>, u8)> = Vec::new();
    for len in lens {
        for mask in [None, Some((0..n).map(|c| c % 2 == 0).collect::<Vec<bool>>()), Some((0..n).map(|c| c % 2 == 1).collect::<Vec<bool>>())] {
            if n == 1 && mask.as_ref().map(|m| !m[0]).unwrap_or(false) {
                continue;
            }
            cases.push((len, mask.clone(), 0));
            if len.is_some() && mask.is_some() {
                cases.push((len, mask.clone(), 1));
            }
            if len.map(|l| l >= 1).unwrap_or(false) && n > 1 {
                cases.push((len, mask.clone(), 2));
            }
        }
    }
    for (len, mask, shape) in cases {
        {
            let mut a = mat::<T>(cfg, h)?;
            let mut b = mat::<T>(cfg, h)?;
            let mut c = mat::<T>(cfg, h)?;
            let x: Option<Vec<Vec<T>>> = len.map(|l| {
                let mut x = input_for(&a, l);
                for (ch, v) in x.iter_mut().enumerate() {
                    let active = mask.as_ref().map(|m| m[ch]).unwrap_or(true);
                    match shape {
                        1 if !active => v.clear(),
                        2 => v.truncate(l.saturating_sub(ch)),
                        _ => {}
                    }
                }
                x
            });
            let mut padded: Vec<Vec<T>> = match &x {
                Some(x) => x.iter().map(|ch| { let mut v = ch.clone(); v.resize(next, T::from64(0.0)); v.truncate(next); v }).collect(),
                None => vec![vec![T::from64(0.0); next]; n],
            };
            for ch in padded.iter_mut() {
                ch.truncate(next);
            }
            let mut out_a: Vec<Vec<T>> = vec![vec![sent; omax + 4]; n];
            let mut out_b: Vec<Vec<T>> = vec![vec![sent; omax + 4]; n];
            let ra = a.r.process_partial_into_buffer(x.as_deref(), &mut out_a, mask.as_deref());
            let rb = b.r.process_into_buffer(&padded, &mut out_b, mask.as_deref());
            let rc = c.r.process_partial(x.as_deref(), mask.as_deref());
            acc.steps += 3;
            acc.evals += 1;
            let what = match len {
                None => "None".to_string(),
                Some(l) => format!("Some({} of {} frames{})", l, next, match shape { 1 => ", inactive channels empty", 2 => ", channel c has c frames less", _ => "" }),
            };
            match (&ra, &rb) {
                (Ok((ia, oa)), Ok((ib, ob))) => {
                    if ia != ib || oa != ob || bits(&out_a, omax + 4) != bits(&out_b, omax + 4) {
                        acc.fail("C16", cfg, h, "partial!=zero-padded", format!("process_partial_into_buffer({}) with mask {:?}: counts ({},{}) vs ({},{}); all output cells equal: {}", what, mask, ia, oa, ib, ob, bits(&out_a, omax + 4) == bits(&out_b, omax + 4)));
                    }
                    if fp_full(&a.state()) != fp_full(&b.state()) {
                        acc.fail("C16", cfg, h, "partial-leaves-different-state", format!("{} mask {:?}", what, mask));
                    }
                    match &rc {
                        Ok(v) => {
                            for ch in 0..n {
                                let active = mask.as_ref().map(|m| m[ch]).unwrap_or(true);
                                if active && (v[ch].len() != *oa || bits(&v[ch..=ch], *oa) != bits(&out_a[ch..=ch], *oa)) {
                                    acc.fail("C16", cfg, h, "process_partial!=process_partial_into_buffer", format!("{} mask {:?} channel {}: {} frames vs {}", what, mask, ch, v[ch].len(), oa));
                                }
                                if !active && !v[ch].is_empty() {
                                    acc.fail("C16", cfg, h, "process_partial-masked-channel-not-empty", format!("{} mask {:?} channel {}", what, mask, ch));
                                }
                            }
                        }
                        Err(e) => acc.fail("C16", cfg, h, "process_partial-fails", format!("{}: {}", what, crate::run::ErrInfo::from(e).text())),
                    }
                    acc.outcomes.push(format!("{}:partial:{}", cfg.kind.name(), if len.is_none() { "none" } else if len.unwrap() >= next { "full" } else { "short" }));
                }
                _ => {
                    let (ta, tb) = (res_text(&ra), res_text(&rb));
                    if ta != tb {
                        acc.fail("C16", cfg, h, "partial-result-differs", format!("{} mask {:?}: {} vs {}", what, mask, ta, tb));
                    }
                    acc.outcomes.push(format!("{}:partial:err", cfg.kind.name()));
                }
            }
        }
    }
    // (5) flushing: k x None == k zero chunks
    {
        let mut a = mat::<T>(cfg, h)?;
        let mut b = mat::<T>(cfg, h)?;
        for k in 0..3 {
            let nx = a.r.input_frames_next();
            let zeros: Vec<Vec<T>> = vec![vec![T::from64(0.0); nx]; n];
            let mut out_a: Vec<Vec<T>> = vec![vec![sent; omax + 4]; n];
            let mut out_b: Vec<Vec<T>> = vec![vec![sent; omax + 4]; n];
            let ra = a.r.process_partial_into_buffer(None::<&[Vec<T>]>, &mut out_a, None);
            let rb = b.r.process_into_buffer(&zeros, &mut out_b, None);
            acc.steps += 2;
            let same = match (&ra, &rb) {
                (Ok(x), Ok(y)) => x == y && bits(&out_a, omax + 4) == bits(&out_b, omax + 4),
                _ => res_text(&ra) == res_text(&rb),
            };
            if !same {
                acc.fail("C16", cfg, h, "flush!=zero-stream", format!("flush call {} differs from processing an all-zero chunk", k));
                break;
            }
        }
        acc.evals += 1;
    }
    let _ = onext;
    Ok(())
}

/// (6) VecResampler forwards everything: drive a boxed object and a direct twin through P/R/PP.
fn c16_boxed<T: Flt>(acc: &mut Acc, cfg: &Cfg, depth: usize) -> Result<(), String> {
    let mut alpha = vec![Op::P, Op::PP(Some(1)), Op::W];
    if cfg.kind.is_async() {
        alpha.push(Op::R(cfg.max_rel, true));
        alpha.push(Op::Ra(cfg.ratio / cfg.max_rel, false));
        alpha.push(Op::R(cfg.max_rel * 2.0, false)); // rejected
    } else {
        alpha.push(Op::R(1.0, false)); // SyncNotAdjustable
    }
    let n = cfg.channels;
    let sent = T::sentinel();
    for h in histories(&alpha, depth) {
        let mut direct = Runner::<T>::new(cfg, Signal::Noise)?;
        let mut boxed: Box<dyn VecResampler<T>> = cfg.build::<T>()?.into_boxed();
        let mut pos = 0usize;
        acc.evals += 1;
        for (i, op) in h.iter().enumerate() {
            acc.steps += 2;
            // getters first
            let gd = direct.r.getters();
            let gb = (boxed.input_frames_next(), boxed.input_frames_max(), boxed.output_frames_next(), boxed.output_frames_max(), boxed.output_delay(), boxed.nbr_channels());
            if (gd.in_next, gd.in_max, gd.out_next, gd.out_max, gd.delay, gd.channels) != gb {
                acc.fail("C16", cfg, &h[..i], "vecresampler-getters-differ", format!("direct {:?} vs boxed {:?}", gd, gb));
                break;
            }
            let ib = boxed.input_buffer_allocate(true);
            let ob = boxed.output_buffer_allocate(true);
            if ib.len() != n || ob.len() != n || ib[0].len() != gd.in_max || ob[0].len() != gd.out_max {
                acc.fail("C16", cfg, &h[..i], "vecresampler-allocate-differs", format!("boxed buffers {}x{} / {}x{}", ib.len(), ib[0].len(), ob.len(), ob[0].len()));
                break;
            }
            let input: Vec<Vec<T>> = (0..n).map(|ch| (0..gd.in_next).map(|k| T::from64(Signal::Noise.at(ch, pos + k))).collect()).collect();
            let same = match op {
                Op::P => {
                    let mut oa: Vec<Vec<T>> = vec![vec![sent; gd.out_max]; n];
                    let mut obb: Vec<Vec<T>> = vec![vec![sent; gd.out_max]; n];
                    let ra = direct.r.process_into_buffer(&input, &mut oa, None);
                    let rb = boxed.process_into_buffer(&input, &mut obb, None);
                    if let Ok((c, _)) = &ra {
                        pos += c;
                    }
                    res_text2(&ra) == res_text2(&rb) && bits(&oa, gd.out_max) == bits(&obb, gd.out_max)
                }
                Op::PP(_) => {
                    let x: Vec<Vec<T>> = input.iter().map(|c| c.iter().take(1).copied().collect()).collect();
                    let mut oa: Vec<Vec<T>> = vec![vec![sent; gd.out_max]; n];
                    let mut obb: Vec<Vec<T>> = vec![vec![sent; gd.out_max]; n];
                    let ra = direct.r.process_partial_into_buffer(Some(&x[..]), &mut oa, None);
                    let rb = boxed.process_partial_into_buffer(Some(&x), &mut obb, None);
                    if let Ok((c, _)) = &ra {
                        pos += c;
                    }
                    let vb = res_text2(&ra) == res_text2(&rb) && bits(&oa, gd.out_max) == bits(&obb, gd.out_max);
                    vb
                }
                Op::W => {
                    let ra = direct.r.process(&input, None);
                    let rb = boxed.process(&input, None);
                    pos += gd.in_next;
                    match (ra, rb) {
                        (Ok(a), Ok(b)) => a.len() == b.len() && bits(&a, usize::MAX) == bits(&b, usize::MAX),
                        (Err(a), Err(b)) => crate::run::ErrInfo::from(&a) == crate::run::ErrInfo::from(&b),
                        _ => false,
                    }
                }
                Op::R(x, ramp) => {
                    let ra = direct.r.set_resample_ratio_relative(*x, *ramp);
                    let rb = boxed.set_resample_ratio_relative(*x, *ramp);
                    res_text(&ra) == res_text(&rb)
                }
                Op::Ra(x, ramp) => {
                    let ra = direct.r.set_resample_ratio(*x, *ramp);
                    let rb = boxed.set_resample_ratio(*x, *ramp);
                    res_text(&ra) == res_text(&rb)
                }
                _ => true,
            };
            if !same {
                acc.fail("C16", cfg, &h[..=i], "vecresampler-differs", format!("step {} ({}) through Box<dyn VecResampler> differs from the direct call", i, op.text()));
                break;
            }
            // calls the core rejects must be forwarded unchanged too (same error, nothing written,
            // nothing consumed): end-of-stream calls with a wrong number of (empty or non-empty)
            // input channels, a mask of the wrong length, a short output
            let g2 = direct.r.getters();
            let shapes: Vec<(&str, Option<Vec<Vec<T>>>, Option<Vec<bool>>, usize)> = vec![
                ("Some(no channels)", Some(vec![]), None, n),
                ("Some(n+1 empty channels)", Some(vec![Vec::new(); n + 1]), None, n),
                ("Some(n-1 channels with one frame)", Some(vec![vec![T::from64(0.5); 1]; n - 1]), None, n),
                ("mask one too long", Some(vec![vec![T::from64(0.5); 1]; n]), Some(vec![true; n + 1]), n),
                ("None with one output channel missing", None, None, n - 1),
            ];
            let mut bad_same = true;
            for (what, x, mask, nout) in shapes {
                let mut oa: Vec<Vec<T>> = vec![vec![sent; g2.out_max]; nout];
                let mut obb: Vec<Vec<T>> = vec![vec![sent; g2.out_max]; nout];
                let ra = direct.r.process_partial_into_buffer(x.as_deref(), &mut oa, mask.as_deref());
                let rb = boxed.process_partial_into_buffer(x.as_deref(), &mut obb, mask.as_deref());
                acc.steps += 2;
                let (ta, tb) = (
                    match &ra { Ok(v) => format!("Ok{:?}", v), Err(e) => format!("Err({})", crate::run::ErrInfo::from(e).text()) },
                    match &rb { Ok(v) => format!("Ok{:?}", v), Err(e) => format!("Err({})", crate::run::ErrInfo::from(e).text()) },
                );
                if ta != tb || bits(&oa, g2.out_max) != bits(&obb, g2.out_max) {
                    acc.fail("C16", cfg, &h[..=i], "vecresampler-differs", format!("after step {}: process_partial_into_buffer({}) through Box<dyn VecResampler> gives {}, the direct call {}", i, what, tb, ta));
                    bad_same = false;
                    break;
                }
                if ra.is_ok() {
                    // (accepted by both: only possible for shapes that are not malformed for this type)
                    if let Ok((c, _)) = &ra {
                        pos += c;
                    }
                }
            }
            if !bad_same {
                break;
            }
        }
        acc.outcomes.push(format!("{}:boxed", cfg.kind.name()));
    }
    Ok(())
}

impl Check for C16 {
    fn id(&self) -> &'static str {
        "C16"
    }
    fn level(&self) -> &'static str {
        "model_checking"
    }
    fn engine(&self) -> &'static str {
        "E1 unmerged: in every state reached by a history up to the depth, wrapper calls and core calls are executed on twins of the real object and compared bit for bit"
    }
    fn n_items(&self, tier: Tier) -> usize {
        lattice(tier, c16_channels(tier)).len() + SWEEP_RATIOS.len() + 1
    }
    fn run_item(&self, tier: Tier, idx: usize, journal: Option<&JournalFile>) -> Result<Value, String> {
        let nl = lattice(tier, c16_channels(tier)).len();
        if idx == nl + SWEEP_RATIOS.len() {
            return crate::wide::c16_item();
        }
        if idx >= nl {
            // numeric coincidences between chunk size and ratio: chunk * ratio (or chunk / ratio)
            // one unit in the last place away from a whole number, where two ways of rounding a
            // size differ by a frame. Every chunk size up to the limit, in the fresh state and
            // after one call.
            let ratio = SWEEP_RATIOS[idx - nl];
            let mut acc = Acc::new();
            let max = if tier == Tier::Quick { 800 } else { 3000 };
            for chunk in 1..=max {
                for cfg in [
                    Cfg::fast(Kind::FI, ratio, 1.5, chunk, Degree::Linear),
                    Cfg::fast(Kind::FO, ratio, 1.5, chunk, Degree::Linear),
                    Cfg::sinc(Kind::SI, ratio, 1.5, chunk, 8, 2, Interp::Nearest, Kernel::Scalar),
                    Cfg::sinc(Kind::SO, ratio, 1.5, chunk, 8, 2, Interp::Nearest, Kernel::Scalar),
                ] {
                    if let Some(j) = journal {
                        j.write(&cfg.to_json(), "");
                    }
                    c16_state::<f64>(&mut acc, &cfg, &[])?;
                    if chunk % 10 == 0 || tier == Tier::Thorough {
                        c16_state::<f64>(&mut acc, &cfg, &[Op::P])?;
                        c16_state::<f64>(&mut acc, &cfg, &[Op::R(1.5, true)])?;
                    }
                }
            }
            acc.samples.push(json!({"sweep": format!("ratio {:?}, chunk 1..={}, four asynchronous types", ratio, max), "per_state": "as for the lattice items"}));
            return Ok(acc.json(format!("coincidence sweep ratio {:?}", ratio)));
        }
        let cfg = lattice(tier, c16_channels(tier)).into_iter().nth(idx).ok_or("no item")?;
        let mut acc = Acc::new();
        let depth = if tier == Tier::Quick { 4 } else { 5 };
        let alpha = alphabet(&cfg, true);
        for d in 0..=depth {
            for h in histories(&alpha, d) {
                if let Some(j) = journal {
                    j.write(&cfg.to_json(), &history_text(&h));
                }
                c16_state::<f64>(&mut acc, &cfg, &h)?;
                if d <= 3 {
                    c16_state::<f32>(&mut acc, &cfg, &h)?;
                }
            }
        }
        c16_boxed::<f64>(&mut acc, &cfg, depth + 1)?;
        c16_boxed::<f32>(&mut acc, &cfg, depth)?;
        acc.samples.push(json!({"cfg": cfg.short(), "states": "all histories of length 0..depth over {P,R(max,ramp),R(1/max),C(max/2),C(max),Z,PP(1)}", "per_state": "process() vs process_into_buffer under all masks; partial Some(x) for every length 1..next-1, next, next+3 and None vs zero-padded chunk (2 masks); process_partial; 3 flushes"}));
        Ok(acc.json(cfg.short()))
    }
    fn finalize(&self, tier: Tier, _items: &[Value], cov: &mut Map<String, Value>) {
        cov.insert("history_depth".into(), json!(if tier == Tier::Quick { 4 } else { 5 }));
        cov.insert("states_note".into(), json!("states = twin comparisons executed (one per reached state x wrapper x mask/partial length); transitions = real API calls made for them"));
    }
    fn replay(&self, replay: &Value) -> Result<(bool, String), String> {
        crate::frame::replay_by_item(self, replay)
    }
    fn rule(&self, _tier: Tier) -> String {
        "for every history up to the depth (2 channels): twins materialised by replay; process() vs process_into_buffer under all 4 masks and no mask, and on three inputs the core call rejects (short channel, one channel too many, one missing); process_partial_into_buffer(Some(x)) for every length 1..next-1 (next<=64), next, next+3 and None against process_into_buffer on the zero-padded/truncated chunk, with and without a mask, including the state left behind; process_partial vs process_partial_into_buffer; three flush calls vs three zero chunks; every VecResampler method through Box<dyn VecResampler> vs the direct call along all histories over {P, PP, W, accepted and rejected ratio changes}".into()
    }
    fn assumptions(&self) -> Vec<String> {
        vec!["bit-identical comparison of all output cells (sentinel-filled buffers), returned counts and hook snapshots".into()]
    }
    fn vacuity(&self, _tier: Tier) -> (u64, u64) {
        (500, 4)
    }
}
