//! Index probe: a `SincInterpolator` that makes the evaluation instant observable.
//!
//! `get_sinc_interpolated(wave, index, sub)` returns the *linear interpolation* of `wave` at
//! position `index + len/2 - 1 + (sub+1)/nbr_sincs`, which is the position the real table's
//! branch `sub` is centred on (sinc.rs: `sincs[factor-n-1][p] = y[factor*p+n]`, `y` centred on
//! `totpoints/2`). With the input `x[n] = n + B` every output value therefore *is* the
//! input-time instant at which it was evaluated. It asserts the same preconditions as the
//! real kernels and records every access in a thread-local log.

use rubato::sinc_interpolator::SincInterpolator;
use rubato::Sample;
use std::cell::RefCell;

#[derive(Clone, Debug, PartialEq)]
pub struct ProbeLog {
    pub calls: usize,
    pub min_index: isize,
    /// highest cell of any *nominal* window (index + len - 1)
    pub max_index: isize,
    /// cells actually dereferenced by the probe (the two around the centre)
    pub min_cell: isize,
    pub max_cell: isize,
    /// calls whose centre cells lie below `valid_from` (zero pre-roll): value returned is NaN
    pub below_valid: usize,
    /// calls whose centre cells lie at or above `valid_to` (storage not supplied by this call)
    pub above_valid: usize,
    /// calls whose nominal window [index, index+len) reaches beyond `valid_to`
    pub window_above_valid: usize,
    pub max_subindex: usize,
}

impl ProbeLog {
    pub const EMPTY: ProbeLog = ProbeLog {
        calls: 0,
        min_index: isize::MAX,
        max_index: isize::MIN,
        min_cell: isize::MAX,
        max_cell: isize::MIN,
        below_valid: 0,
        above_valid: 0,
        window_above_valid: 0,
        max_subindex: 0,
    };
}

pub const POISON: f64 = 1.0e30;

struct ProbeCtl {
    valid_from: isize,
    valid_to: isize,
    log: ProbeLog,
}

thread_local! {
    static CTL: RefCell<ProbeCtl> = const { RefCell::new(ProbeCtl { valid_from: isize::MIN, valid_to: isize::MAX, log: ProbeLog::EMPTY }) };
}

/// Declare which buffer cells hold data that was supplied by the caller for the current
/// stream: `[valid_from, valid_to)`. Clears the log.
pub fn arm(valid_from: isize, valid_to: isize) {
    CTL.with(|c| {
        let mut c = c.borrow_mut();
        c.valid_from = valid_from;
        c.valid_to = valid_to;
        c.log = ProbeLog::EMPTY;
    })
}

pub fn take() -> ProbeLog {
    CTL.with(|c| {
        let mut c = c.borrow_mut();
        c.valid_from = isize::MIN;
        c.valid_to = isize::MAX;
        std::mem::replace(&mut c.log, ProbeLog::EMPTY)
    })
}

pub struct IndexProbe {
    length: usize,
    nbr_sincs: usize,
}

impl IndexProbe {
    pub fn new(length: usize, nbr_sincs: usize) -> Self {
        // any length: new_with_interpolator accepts custom interpolators of odd length too
        assert!(length >= 2, "probe length must be at least 2");
        IndexProbe { length, nbr_sincs }
    }
}

impl<T: Sample> SincInterpolator<T> for IndexProbe {
    fn get_sinc_interpolated(&self, wave: &[T], index: usize, subindex: usize) -> T {
        assert!(
            (index + self.length) < wave.len(),
            "Tried to interpolate for index {}, max for the given input is {}",
            index,
            wave.len() as isize - self.length as isize - 1
        );
        assert!(
            subindex < self.nbr_sincs,
            "Tried to use sinc subindex {}, max is {}",
            subindex,
            self.nbr_sincs as isize - 1
        );
        let base = index + self.length / 2 - 1;
        let frac = (subindex + 1) as f64 / self.nbr_sincs as f64;
        let below = CTL.with(|c| {
            let mut c = c.borrow_mut();
            let (vf, vt) = (c.valid_from, c.valid_to);
            let l = &mut c.log;
            l.calls += 1;
            l.min_index = l.min_index.min(index as isize);
            l.max_index = l.max_index.max((index + self.length - 1) as isize);
            l.min_cell = l.min_cell.min(base as isize);
            l.max_cell = l.max_cell.max(base as isize + 1);
            l.max_subindex = l.max_subindex.max(subindex);
            let below = (base as isize) < vf;
            if below {
                l.below_valid += 1;
            }
            // the upper cell carries weight `frac` > 0, always
            if base as isize + 1 >= vt {
                l.above_valid += 1;
            }
            let tail = (index + self.length) as isize > vt;
            if tail {
                l.window_above_valid += 1;
            }
            (below, tail)
        });
        let (below, tail) = below;
        if below {
            return T::coerce(f64::NAN);
        }
        if tail {
            // The nominal window reaches into storage that was not supplied for this position.
            // Return a huge finite poison: it vanishes if (and only if) the caller gives this
            // point an exactly zero weight, and wrecks the instant otherwise.
            return T::coerce(POISON);
        }
        let a = wave[base];
        let b = wave[base + 1];
        a + T::coerce(frac) * (b - a)
    }

    fn len(&self) -> usize {
        self.length
    }

    fn nbr_sincs(&self) -> usize {
        self.nbr_sincs
    }
}
