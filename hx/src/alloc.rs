//! Counting global allocator (per thread), for C09. It also fills every fresh block (and the grown
//! tail of a reallocated one) with a byte pattern, so that heap memory that is read before it is
//! written has a deterministic, visible value instead of whatever the process left there:
//! 0x41 reads as 2.2e6 (f64) / 12.1 (f32), 0x42 as 1.6e11 / 48.6. `HX_POISON=<byte>` selects the
//! pattern (0 switches the fill off); the fresh-process references of C18 use a different one.

use std::alloc::{GlobalAlloc, Layout, System};
use std::cell::Cell;

pub struct Counting;

static POISON: std::sync::atomic::AtomicU8 = std::sync::atomic::AtomicU8::new(0x41);

pub fn set_poison(b: u8) {
    POISON.store(b, std::sync::atomic::Ordering::Relaxed);
}

#[inline]
unsafe fn fill(p: *mut u8, n: usize) {
    let b = POISON.load(std::sync::atomic::Ordering::Relaxed);
    if b != 0 && !p.is_null() {
        std::ptr::write_bytes(p, b, n);
    }
}

thread_local! {
    static ALLOCS: Cell<u64> = const { Cell::new(0) };
    static REALLOCS: Cell<u64> = const { Cell::new(0) };
    static DEALLOCS: Cell<u64> = const { Cell::new(0) };
}

/// Blocks whose layout asks for 8-byte alignment (`Vec<f64>`, `Vec<usize>` ...) are handed out at
/// addresses that are 8 modulo 16: conforming, and the least aligned a block of that layout can
/// be. (The system allocator returns 16-byte aligned blocks whatever the layout says, which
/// hides code that relies on more alignment than its types guarantee - an aligned SIMD load
/// from a `Vec<f64>`, say.) Blocks with 4-byte alignment (`Vec<f32>`) are placed at 4 modulo 16.
/// (No run-time switch: blocks allocated before `main` must be freed with the same rule.)

#[inline]
fn shift_for(layout: &Layout) -> usize {
    // decided by the layout alone, so that alloc / realloc / dealloc agree without a header
    if layout.size() >= 16 && (layout.align() == 8 || layout.align() == 4) {
        layout.align()
    } else {
        0
    }
}

#[inline]
unsafe fn outer(layout: &Layout, shift: usize) -> Layout {
    Layout::from_size_align_unchecked(layout.size() + shift, 16)
}

unsafe impl GlobalAlloc for Counting {
    unsafe fn alloc(&self, layout: Layout) -> *mut u8 {
        let _ = ALLOCS.try_with(|c| c.set(c.get() + 1));
        let shift = shift_for(&layout);
        let p = if shift == 0 { System.alloc(layout) } else { System.alloc(outer(&layout, shift)) };
        if p.is_null() {
            return p;
        }
        let p = p.add(shift);
        fill(p, layout.size());
        p
    }
    unsafe fn dealloc(&self, ptr: *mut u8, layout: Layout) {
        let _ = DEALLOCS.try_with(|c| c.set(c.get() + 1));
        let shift = shift_for(&layout);
        if shift == 0 {
            System.dealloc(ptr, layout)
        } else {
            System.dealloc(ptr.sub(shift), outer(&layout, shift))
        }
    }
    unsafe fn alloc_zeroed(&self, layout: Layout) -> *mut u8 {
        let _ = ALLOCS.try_with(|c| c.set(c.get() + 1));
        let shift = shift_for(&layout);
        if shift == 0 {
            System.alloc_zeroed(layout)
        } else {
            let p = System.alloc_zeroed(outer(&layout, shift));
            if p.is_null() {
                p
            } else {
                p.add(shift)
            }
        }
    }
    unsafe fn realloc(&self, ptr: *mut u8, layout: Layout, new_size: usize) -> *mut u8 {
        let _ = REALLOCS.try_with(|c| c.set(c.get() + 1));
        let shift = shift_for(&layout);
        let new_layout = Layout::from_size_align_unchecked(new_size, layout.align());
        let new_shift = shift_for(&new_layout);
        let p = if shift == 0 && new_shift == 0 {
            System.realloc(ptr, layout, new_size)
        } else if shift == new_shift {
            // the shift is smaller than the 16-byte alignment of the outer block, so the data
            // keeps its offset when the outer block moves
            let q = System.realloc(ptr.sub(shift), outer(&layout, shift), new_size + shift);
            if q.is_null() {
                q
            } else {
                q.add(shift)
            }
        } else {
            // crossing the 16-byte size limit: move by hand
            let q = if new_shift == 0 { System.alloc(new_layout) } else { System.alloc(outer(&new_layout, new_shift)) };
            if q.is_null() {
                return q;
            }
            let q = q.add(new_shift);
            std::ptr::copy_nonoverlapping(ptr, q, layout.size().min(new_size));
            if shift == 0 {
                System.dealloc(ptr, layout)
            } else {
                System.dealloc(ptr.sub(shift), outer(&layout, shift))
            }
            q
        };
        if new_size > layout.size() && !p.is_null() {
            fill(p.add(layout.size()), new_size - layout.size());
        }
        p
    }
}

/// (allocations, reallocations, deallocations) performed by this thread so far.
#[derive(Clone, Copy, Debug, PartialEq, Eq, Default)]
pub struct Counts {
    pub allocs: u64,
    pub reallocs: u64,
    pub deallocs: u64,
}

impl Counts {
    pub fn total(&self) -> u64 {
        self.allocs + self.reallocs + self.deallocs
    }
    pub fn since(&self, earlier: &Counts) -> Counts {
        Counts {
            allocs: self.allocs - earlier.allocs,
            reallocs: self.reallocs - earlier.reallocs,
            deallocs: self.deallocs - earlier.deallocs,
        }
    }
}

#[inline]
pub fn now() -> Counts {
    Counts {
        allocs: ALLOCS.with(|c| c.get()),
        reallocs: REALLOCS.with(|c| c.get()),
        deallocs: DEALLOCS.with(|c| c.get()),
    }
}
