//! Counting global allocator (per thread), for C09. It also fills every fresh block (and the grown
//! tail of a reallocated one) with a byte pattern, so that heap memory that is read before it is
//! written has a deterministic, visible value instead of whatever the process left there:
//! 0x41 reads as 2.2e6 (f64) / 12.1 (f32), 0x42 as 1.6e11 / 48.6. `HX_POISON=<byte>` selects the
//! pattern (0 switches the fill off); the fresh-process references of C18 use a different one.

use std::alloc::{GlobalAlloc, Layout, System};
use std::cell::Cell;

pub struct Counting;

static POISON: std::sync::atomic::AtomicU8 = std::sync::atomic::AtomicU8::new(0x41);

pub fn set_poison(b: u8) {
    POISON.store(b, std::sync::atomic::Ordering::Relaxed);
}

#[inline]
unsafe fn fill(p: *mut u8, n: usize) {
    let b = POISON.load(std::sync::atomic::Ordering::Relaxed);
    if b != 0 && !p.is_null() {
        std::ptr::write_bytes(p, b, n);
    }
}

thread_local! {
    static ALLOCS: Cell<u64> = const { Cell::new(0) };
    static REALLOCS: Cell<u64> = const { Cell::new(0) };
    static DEALLOCS: Cell<u64> = const { Cell::new(0) };
}

unsafe impl GlobalAlloc for Counting {
    unsafe fn alloc(&self, layout: Layout) -> *mut u8 {
        let _ = ALLOCS.try_with(|c| c.set(c.get() + 1));
        let p = System.alloc(layout);
        fill(p, layout.size());
        p
    }
    unsafe fn dealloc(&self, ptr: *mut u8, layout: Layout) {
        let _ = DEALLOCS.try_with(|c| c.set(c.get() + 1));
        System.dealloc(ptr, layout)
    }
    unsafe fn alloc_zeroed(&self, layout: Layout) -> *mut u8 {
        let _ = ALLOCS.try_with(|c| c.set(c.get() + 1));
        System.alloc_zeroed(layout)
    }
    unsafe fn realloc(&self, ptr: *mut u8, layout: Layout, new_size: usize) -> *mut u8 {
        let _ = REALLOCS.try_with(|c| c.set(c.get() + 1));
        let p = System.realloc(ptr, layout, new_size);
        if new_size > layout.size() && !p.is_null() {
            fill(p.add(layout.size()), new_size - layout.size());
        }
        p
    }
}

/// (allocations, reallocations, deallocations) performed by this thread so far.
#[derive(Clone, Copy, Debug, PartialEq, Eq, Default)]
pub struct Counts {
    pub allocs: u64,
    pub reallocs: u64,
    pub deallocs: u64,
}

impl Counts {
    pub fn total(&self) -> u64 {
        self.allocs + self.reallocs + self.deallocs
    }
    pub fn since(&self, earlier: &Counts) -> Counts {
        Counts {
            allocs: self.allocs - earlier.allocs,
            reallocs: self.reallocs - earlier.reallocs,
            deallocs: self.deallocs - earlier.deallocs,
        }
    }
}

#[inline]
pub fn now() -> Counts {
    Counts {
        allocs: ALLOCS.with(|c| c.get()),
        reallocs: REALLOCS.with(|c| c.get()),
        deallocs: DEALLOCS.with(|c| c.get()),
    }
}
