//! Counting global allocator (per thread), for C09.

use std::alloc::{GlobalAlloc, Layout, System};
use std::cell::Cell;

pub struct Counting;

thread_local! {
    static ALLOCS: Cell<u64> = const { Cell::new(0) };
    static REALLOCS: Cell<u64> = const { Cell::new(0) };
    static DEALLOCS: Cell<u64> = const { Cell::new(0) };
}

unsafe impl GlobalAlloc for Counting {
    unsafe fn alloc(&self, layout: Layout) -> *mut u8 {
        let _ = ALLOCS.try_with(|c| c.set(c.get() + 1));
        System.alloc(layout)
    }
    unsafe fn dealloc(&self, ptr: *mut u8, layout: Layout) {
        let _ = DEALLOCS.try_with(|c| c.set(c.get() + 1));
        System.dealloc(ptr, layout)
    }
    unsafe fn alloc_zeroed(&self, layout: Layout) -> *mut u8 {
        let _ = ALLOCS.try_with(|c| c.set(c.get() + 1));
        System.alloc_zeroed(layout)
    }
    unsafe fn realloc(&self, ptr: *mut u8, layout: Layout, new_size: usize) -> *mut u8 {
        let _ = REALLOCS.try_with(|c| c.set(c.get() + 1));
        System.realloc(ptr, layout, new_size)
    }
}

/// (allocations, reallocations, deallocations) performed by this thread so far.
#[derive(Clone, Copy, Debug, PartialEq, Eq, Default)]
pub struct Counts {
    pub allocs: u64,
    pub reallocs: u64,
    pub deallocs: u64,
}

impl Counts {
    pub fn total(&self) -> u64 {
        self.allocs + self.reallocs + self.deallocs
    }
    pub fn since(&self, earlier: &Counts) -> Counts {
        Counts {
            allocs: self.allocs - earlier.allocs,
            reallocs: self.reallocs - earlier.reallocs,
            deallocs: self.deallocs - earlier.deallocs,
        }
    }
}

#[inline]
pub fn now() -> Counts {
    Counts {
        allocs: ALLOCS.with(|c| c.get()),
        reallocs: REALLOCS.with(|c| c.get()),
        deallocs: DEALLOCS.with(|c| c.get()),
    }
}
