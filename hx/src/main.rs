#![allow(dead_code)]
//! hx — model-checking harness for rubato (see /verif/DESIGN.md).
//!
//!   hx check  <ID> <quick|thorough>            run a check (parent: spawns workers)
//!   hx worker <ID> <tier> <shard> <n> [...]    internal
//!   hx replay <path>                           re-execute a recorded violation
//!   hx one    <ID> '<cfg json>' '<history>'    run one history with the monitors of <ID>

mod alloc;
mod any;
mod c10;
mod c12;
mod cfg;
mod ctor;
mod ctrl;
mod delay;
mod e2;
mod explore;
mod frame;
mod kf;
mod ops;
mod poly;
mod probe;
mod run;
mod sched;
mod simd;
mod spectral;
mod streams;
mod track;
mod tree;
mod twin;
mod wide;

use frame::{Check, Tier};
use serde_json::Value;

#[global_allocator]
static GLOBAL: alloc::Counting = alloc::Counting;

fn registry() -> Vec<Box<dyn Check>> {
    vec![
        Box::new(ctrl::CtrlCheck { id: "C03" }),
        Box::new(ctrl::CtrlCheck { id: "C04" }),
        Box::new(ctrl::CtrlCheck { id: "C06" }),
        Box::new(ctrl::CtrlCheck { id: "C09" }),
        Box::new(ctrl::CtrlCheck { id: "C13" }),
        Box::new(ctrl::CtrlCheck { id: "C10" }),
        Box::new(ctrl::CtrlCheck { id: "C17" }),
        Box::new(c12::C12),
        Box::new(streams::C05),
        Box::new(streams::C07),
        Box::new(tree::C11),
        Box::new(tree::C16),
        Box::new(sched::C18),
        Box::new(simd::C15),
        Box::new(poly::C08),
        Box::new(delay::C14),
        Box::new(spectral::C01),
        Box::new(spectral::C02),
    ]
}

fn find(id: &str) -> Option<Box<dyn Check>> {
    registry().into_iter().find(|c| c.id() == id)
}

fn usage() -> ! {
    eprintln!("usage: hx check <ID> <quick|thorough> | hx replay <path> | hx one <ID> <cfg-json> <history>");
    std::process::exit(2)
}

fn main() {
    if let Some(b) = std::env::var("HX_POISON").ok().and_then(|v| v.parse::<u8>().ok()) {
        alloc::set_poison(b);
    }
    run::install_panic_hook();
    let args: Vec<String> = std::env::args().collect();
    if args.len() < 2 {
        usage();
    }
    let exe = std::env::current_exe()
        .map(|p| p.to_string_lossy().to_string())
        .unwrap_or_else(|_| args[0].clone());
    match args[1].as_str() {
        "check" => {
            if args.len() < 4 {
                usage();
            }
            let check = find(&args[2]).unwrap_or_else(|| {
                eprintln!("unknown check {}", args[2]);
                std::process::exit(2)
            });
            let tier = Tier::parse(&args[3]).unwrap_or_else(|| usage());
            let out = frame::run_check(check.as_ref(), tier, &exe);
            std::process::exit(out.exit);
        }
        "worker" => {
            if args.len() < 6 {
                usage();
            }
            let check = find(&args[2]).unwrap_or_else(|| std::process::exit(2));
            let tier = Tier::parse(&args[3]).unwrap_or_else(|| usage());
            let shard: usize = args[4].parse().unwrap_or(0);
            let n: usize = args[5].parse().unwrap_or(1);
            let mut resume = None;
            let mut only = None;
            let mut journal = None;
            let mut i = 6;
            while i + 1 < args.len() {
                match args[i].as_str() {
                    "--resume-after" => resume = args[i + 1].parse().ok(),
                    "--only" => only = args[i + 1].parse().ok(),
                    "--journal" => journal = Some(args[i + 1].clone()),
                    _ => {}
                }
                i += 2;
            }
            std::process::exit(frame::worker(check.as_ref(), tier, shard, n, resume, only, journal));
        }
        "replay" => {
            if args.len() < 3 {
                usage();
            }
            let text = std::fs::read_to_string(&args[2]).unwrap_or_else(|e| {
                eprintln!("{}: {}", args[2], e);
                std::process::exit(2)
            });
            let v: Value = serde_json::from_str(&text).unwrap_or_else(|e| {
                eprintln!("{}: {}", args[2], e);
                std::process::exit(2)
            });
            let id = v["property"].as_str().unwrap_or("");
            let check = find(id).unwrap_or_else(|| {
                eprintln!("unknown property {}", id);
                std::process::exit(2)
            });
            match check.replay(&v) {
                Ok((bad, log)) => {
                    println!("replay of {} ({} {})", args[2], id, v["cfg"]);
                    print!("{}", log);
                    if bad {
                        println!("VIOLATION property={} replay={}", id, args[2]);
                        std::process::exit(1);
                    }
                    println!("no violation of {} on this tree", id);
                }
                Err(e) => {
                    eprintln!("replay failed: {}", e);
                    std::process::exit(2);
                }
            }
        }
        "one" => {
            if args.len() < 5 {
                usage();
            }
            let check = find(&args[2]).unwrap_or_else(|| std::process::exit(2));
            let cfgv: Value = serde_json::from_str(&args[3]).unwrap_or_else(|e| {
                eprintln!("cfg: {}", e);
                std::process::exit(2)
            });
            let v = serde_json::json!({"property": args[2], "cfg": cfgv, "history": args[4]});
            match check.replay(&v) {
                Ok((bad, log)) => {
                    print!("{}", log);
                    std::process::exit(if bad { 1 } else { 0 });
                }
                Err(e) => {
                    eprintln!("{}", e);
                    std::process::exit(2);
                }
            }
        }
        "fftscratch" => {
            // debugging aid: inverse real FFT lengths (2 * block) whose scratch buffer is not empty
            let mut planner = realfft::RealFftPlanner::<f64>::new();
            let mut v = Vec::new();
            for n in 1..=600usize {
                let ifft = planner.plan_fft_inverse(2 * n);
                if ifft.get_scratch_len() > 0 {
                    v.push(n);
                }
            }
            println!("blocks with non-empty inverse scratch: {:?}", v);
        }
        "c15guard" => {
            std::process::exit(simd::guard_main());
        }
        "c18free" => {
            let mix: usize = args.get(2).and_then(|s| s.parse().ok()).unwrap_or_else(|| usage());
            std::process::exit(sched::free_main(mix));
        }
        "c18ref" => {
            let mix: usize = args.get(2).and_then(|s| s.parse().ok()).unwrap_or_else(|| usage());
            let inst: usize = args.get(3).and_then(|s| s.parse().ok()).unwrap_or_else(|| usage());
            std::process::exit(sched::reference_main(mix, inst));
        }
        "items" => {
            let check = find(&args[2]).unwrap_or_else(|| std::process::exit(2));
            let tier = Tier::parse(&args[3]).unwrap_or_else(|| usage());
            println!("{}", check.n_items(tier));
        }
        _ => usage(),
    }
}
