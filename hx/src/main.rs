fn main(){}
