//! Known findings: loading /verif/known_findings.json and matching violations against it.
//!
//! A violation is *known* iff an entry with status "open" has the same property, lists the
//! resampler kind, one of its signature prefixes matches, and its trigger predicate holds of
//! the violating (configuration, history). Entries with status "fixed" suppress nothing.

use crate::cfg::{Cfg, Kind};
use crate::ops::Op;
use serde_json::Value;

#[derive(Clone, Debug)]
pub struct Entry {
    pub id: String,
    pub property: String,
    pub status: String,
    pub kinds: Vec<String>,
    pub sigs: Vec<String>,
    pub trigger: String,
    pub args: Value,
    pub what: String,
}

pub fn load(path: &str) -> Result<Vec<Entry>, String> {
    let text = match std::fs::read_to_string(path) {
        Ok(t) => t,
        Err(_) => return Ok(Vec::new()),
    };
    let v: Value = serde_json::from_str(&text).map_err(|e| format!("{}: {}", path, e))?;
    let mut out = Vec::new();
    for e in v["findings"].as_array().cloned().unwrap_or_default() {
        let strs = |k: &str| -> Vec<String> {
            e[k].as_array()
                .map(|a| a.iter().filter_map(|x| x.as_str().map(String::from)).collect())
                .unwrap_or_default()
        };
        out.push(Entry {
            id: e["id"].as_str().unwrap_or("?").to_string(),
            property: e["property"].as_str().unwrap_or("?").to_string(),
            status: e["status"].as_str().unwrap_or("open").to_string(),
            kinds: strs("kinds"),
            sigs: strs("signatures"),
            trigger: e["trigger"]["pred"].as_str().unwrap_or("never").to_string(),
            args: e["trigger"]["args"].clone(),
            what: e["what"].as_str().unwrap_or("").to_string(),
        });
    }
    Ok(out)
}

/// One processing call of a history, with the documented ratio pair and chunk size in force.
#[derive(Clone, Copy, Debug)]
pub struct CallCtx {
    pub index: usize,
    pub r_cur: f64,
    pub r_tgt: f64,
    pub chunk: usize,
}

/// Follow the documented semantics of setters through a history (all setters assumed accepted
/// when in range).
pub fn calls(cfg: &Cfg, history: &[Op]) -> Vec<CallCtx> {
    let mut out = Vec::new();
    let (mut cur, mut tgt, mut chunk) = (cfg.ratio, cfg.ratio, cfg.chunk);
    let lo = cfg.ratio / cfg.max_rel * (1.0 - 1e-12);
    let hi = cfg.ratio * cfg.max_rel * (1.0 + 1e-12);
    for (i, op) in history.iter().enumerate() {
        match *op {
            Op::R(x, ramp) => {
                let nv = cfg.ratio * x;
                if nv >= lo && nv <= hi {
                    tgt = nv;
                    if !ramp {
                        cur = nv;
                    }
                }
            }
            Op::Ra(nv, ramp) => {
                if nv >= lo && nv <= hi {
                    tgt = nv;
                    if !ramp {
                        cur = nv;
                    }
                }
            }
            Op::C(k) => {
                if cfg.kind.is_sinc() && k >= 1 && k <= cfg.chunk {
                    chunk = k;
                }
            }
            Op::Z => {
                cur = cfg.ratio;
                tgt = cfg.ratio;
                chunk = cfg.chunk;
            }
            _ => {
                if op.is_processing() {
                    out.push(CallCtx {
                        index: i,
                        r_cur: cur,
                        r_tgt: tgt,
                        chunk,
                    });
                    cur = tgt;
                }
            }
        }
    }
    out
}

fn argf(args: &Value, name: &str, default: f64) -> f64 {
    args.get(name).and_then(|x| x.as_f64()).unwrap_or(default)
}

/// The trigger predicates (fixed vocabulary).
pub fn trigger(name: &str, args: &Value, cfg: &Cfg, history: &[Op]) -> bool {
    let cs = calls(cfg, history);
    let l = cfg.filter_len() as f64;
    match name {
        "always" => true,
        "never" => false,
        // some processing call is entered with a coarser previous step than the pre-roll covers:
        // ceil(1/r_end_of_previous_call) - 1/r_first_step_of_this_call > limit
        "step_down_exceeds_preroll" => {
            let limit = argf(args, "limit", l - 1.0);
            cs.windows(2).any(|w| {
                let t_prev = 1.0 / w[0].r_tgt;
                let t_new = 1.0 / w[1].r_cur;
                t_prev.ceil() - t_new > limit
            })
        }
        // a fixed-input call whose ratio is much higher than the one of the previous call, so
        // that the carried position (up to ceil(1/r_prev) input frames) yields more extra
        // output frames than the +10 margin
        "fixed_in_ratio_jump_up" => {
            let margin = argf(args, "margin", 10.0);
            cfg.kind.fixed_in()
                && cs.windows(2).any(|w| {
                    let t_prev = (1.0 / w[0].r_tgt).max(1.0 / w[0].r_cur);
                    let r_new = w[1].r_cur.max(w[1].r_tgt);
                    t_prev.ceil() * r_new > margin
                })
        }
        // the last processing call runs a ramp
        "ramp_in_last_call" => cs.last().map(|c| c.r_cur != c.r_tgt).unwrap_or(false),
        // any ramp anywhere before the violation
        "any_ramp" => cs.iter().any(|c| c.r_cur != c.r_tgt),
        // a ramped call on a chunk so small that the per-frame increment is applied more often
        // than the estimated number of frames
        "ramp_on_tiny_chunk" => {
            let limit = argf(args, "max_frames", 4.0);
            cs.iter().any(|c| {
                c.r_cur != c.r_tgt && (c.chunk as f64) * 0.5 * (c.r_cur + c.r_tgt) < limit
            })
        }
        // the coarsest reachable step exceeds what the fixed pre-roll / margins were sized for
        "coarse_step_config" => {
            let limit = argf(args, "limit", l - 1.0);
            (cfg.max_rel / cfg.ratio).ceil() > limit
        }
        "kind_is_sinc" => cfg.kind.is_sinc(),
        "oversampling_one_poly" => {
            cfg.kind.is_sinc()
                && cfg.oversampling == 1
                && matches!(cfg.interp, crate::cfg::Interp::Cubic | crate::cfg::Interp::Quadratic)
        }
        "fft_block_below" => {
            let limit = argf(args, "limit", 32.0) as usize;
            cfg.kind.is_fft() && {
                let (a, b) = fft_sizes(cfg);
                a.min(b) < limit
            }
        }
        _ => false,
    }
}

/// FFT block sizes as the constructors compute them.
pub fn fft_sizes(cfg: &Cfg) -> (usize, usize) {
    fn gcd(a: usize, b: usize) -> usize {
        if b == 0 {
            a
        } else {
            gcd(b, a % b)
        }
    }
    let g = gcd(cfg.rate_in, cfg.rate_out).max(1);
    let (min_in, min_out) = (cfg.rate_in / g, cfg.rate_out / g);
    let chunks = match cfg.kind {
        Kind::XX => (cfg.chunk as f32 / min_in as f32).ceil() as usize,
        Kind::XI => ((cfg.chunk / cfg.sub_chunks.max(1)) as f32 / min_in as f32).ceil() as usize,
        Kind::XO => ((cfg.chunk / cfg.sub_chunks.max(1)) as f32 / min_out as f32).ceil() as usize,
        _ => 0,
    };
    (chunks * min_in, chunks * min_out)
}

pub fn classify<'a>(
    entries: &'a [Entry],
    prop: &str,
    sig: &str,
    cfg: &Cfg,
    history: &[Op],
) -> Option<&'a Entry> {
    entries.iter().find(|e| {
        e.status == "open"
            && e.property == prop
            && (e.kinds.is_empty() || e.kinds.iter().any(|k| k == cfg.kind.name()))
            && (e.sigs.is_empty() || e.sigs.iter().any(|s| sig.starts_with(s.as_str())))
            && trigger(&e.trigger, &e.args, cfg, history)
    })
}
