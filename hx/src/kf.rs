//! Known findings: loading /verif/known_findings.json and matching violations against it.
//!
//! A violation is *known* iff an entry with status "open" has the same property, lists the
//! resampler kind, one of its signature prefixes matches, and its trigger predicate holds of
//! the violating (configuration, history). Entries with status "fixed" suppress nothing.

use crate::cfg::{Cfg, Kind};
use crate::ops::Op;
use serde_json::Value;

#[derive(Clone, Debug)]
pub struct Entry {
    pub id: String,
    pub property: String,
    pub status: String,
    pub kinds: Vec<String>,
    pub sigs: Vec<String>,
    pub trigger: String,
    pub args: Value,
    pub what: String,
}

pub fn load(path: &str) -> Result<Vec<Entry>, String> {
    let text = match std::fs::read_to_string(path) {
        Ok(t) => t,
        Err(_) => return Ok(Vec::new()),
    };
    let v: Value = serde_json::from_str(&text).map_err(|e| format!("{}: {}", path, e))?;
    let mut out = Vec::new();
    for e in v["findings"].as_array().cloned().unwrap_or_default() {
        let strs = |k: &str| -> Vec<String> {
            e[k].as_array()
                .map(|a| a.iter().filter_map(|x| x.as_str().map(String::from)).collect())
                .unwrap_or_default()
        };
        out.push(Entry {
            id: e["id"].as_str().unwrap_or("?").to_string(),
            property: e["property"].as_str().unwrap_or("?").to_string(),
            status: e["status"].as_str().unwrap_or("open").to_string(),
            kinds: strs("kinds"),
            sigs: strs("signatures"),
            trigger: e["trigger"]["pred"].as_str().unwrap_or("never").to_string(),
            args: e["trigger"]["args"].clone(),
            what: e["what"].as_str().unwrap_or("").to_string(),
        });
    }
    Ok(out)
}

/// One processing call of a history, with the documented ratio pair and chunk size in force.
#[derive(Clone, Copy, Debug)]
pub struct CallCtx {
    pub index: usize,
    pub r_cur: f64,
    pub r_tgt: f64,
    pub chunk: usize,
    /// incremented by every reset
    pub segment: usize,
}

impl CallCtx {
    pub fn t_max(&self) -> f64 {
        (1.0 / self.r_cur).max(1.0 / self.r_tgt)
    }
    /// The first step of the call as the fixed-input loops compute it.
    pub fn first_step(&self) -> f64 {
        let (t0, t1) = (1.0 / self.r_cur, 1.0 / self.r_tgt);
        if t0 == t1 {
            return t0;
        }
        let frames = self.chunk as f64 * (0.5 * self.r_cur + 0.5 * self.r_tgt);
        (t0 + (t1 - t0) / frames).clamp(t0.min(t1), t0.max(t1))
    }
}

/// Follow the documented semantics of setters through a history (all setters assumed accepted
/// when in range).
pub fn calls(cfg: &Cfg, history: &[Op]) -> Vec<CallCtx> {
    let mut out = Vec::new();
    let (mut cur, mut tgt, mut chunk) = (cfg.ratio, cfg.ratio, cfg.chunk);
    let mut segment = 0usize;
    let lo = cfg.ratio / cfg.max_rel * (1.0 - 1e-12);
    let hi = cfg.ratio * cfg.max_rel * (1.0 + 1e-12);
    for (i, op) in history.iter().enumerate() {
        match *op {
            Op::R(x, ramp) => {
                let nv = cfg.ratio * x;
                if nv >= lo && nv <= hi {
                    tgt = nv;
                    if !ramp {
                        cur = nv;
                    }
                }
            }
            Op::Ra(nv, ramp) => {
                if nv >= lo && nv <= hi {
                    tgt = nv;
                    if !ramp {
                        cur = nv;
                    }
                }
            }
            Op::C(k) => {
                if cfg.kind.is_sinc() && k >= 1 && k <= cfg.chunk {
                    chunk = k;
                }
            }
            Op::Z => {
                cur = cfg.ratio;
                tgt = cfg.ratio;
                chunk = cfg.chunk;
                segment += 1;
            }
            _ => {
                if op.is_processing() {
                    out.push(CallCtx {
                        index: i,
                        r_cur: cur,
                        r_tgt: tgt,
                        chunk,
                        segment,
                    });
                    cur = tgt;
                }
            }
        }
    }
    out
}

fn argf(args: &Value, name: &str, default: f64) -> f64 {
    args.get(name).and_then(|x| x.as_f64()).unwrap_or(default)
}

/// The trigger predicates (fixed vocabulary).
pub fn trigger(name: &str, args: &Value, cfg: &Cfg, history: &[Op], finding: &Value) -> bool {
    let cs = calls(cfg, history);
    let l = cfg.filter_len() as f64;
    match name {
        "always" => true,
        "never" => false,
        // Fixed-input types: the violating (= last) processing call starts further back than the
        // 2*filter_len history reaches, because the previous call ended with a step that is
        // much coarser than the first step of this one:
        //   ceil(largest step of the previous call) - first step of this call > limit
        // (limit = what the pre-roll covers: sinc_len-2 for cubic, sinc_len-1 otherwise;
        //  7 - window offset for the polynomial types)
        "fixed_in_step_down_exceeds_preroll" => {
            if !(cfg.kind == Kind::SI || cfg.kind == Kind::FI) || cs.len() < 2 {
                return false;
            }
            let (prev, cur) = (cs[cs.len() - 2], cs[cs.len() - 1]);
            let limit = match cfg.kind {
                Kind::SI => match cfg.interp {
                    crate::cfg::Interp::Cubic => l - 2.0,
                    _ => l - 1.0,
                },
                _ => match cfg.degree {
                    crate::cfg::Degree::Septic => 4.0,
                    crate::cfg::Degree::Quintic => 5.0,
                    crate::cfg::Degree::Cubic => 6.0,
                    _ => 7.0,
                },
            };
            prev.segment == cur.segment && prev.t_max().ceil() - cur.first_step() > limit
        }
        // Fixed-input types: the violating (= last) processing call runs at a much higher ratio
        // than the previous one ended with; the position carried over (up to ceil(1/r_prev)
        // input frames) yields more output frames than the fixed +10 margin:
        //   (ceil(largest step of the previous call) - smallest step of this call) * highest ratio of this call > margin - 2
        "fixed_in_ratio_jump_up" => {
            if !(cfg.kind == Kind::SI || cfg.kind == Kind::FI) || cs.len() < 2 {
                return false;
            }
            let margin = argf(args, "margin", 10.0);
            let (prev, cur) = (cs[cs.len() - 2], cs[cs.len() - 1]);
            let r_hi = cur.r_cur.max(cur.r_tgt);
            // frames the call can produce beyond chunk * ratio: the room reserved at the end of
            // the previous chunk, ceil(largest previous step), less the room this call reserves,
            // in output frames (with a ramp inside the call the reserve is not a single number;
            // the coarser estimate is kept there)
            let reserve_now = if cur.r_cur == cur.r_tgt { (1.0 / r_hi).ceil() } else { 1.0 / r_hi };
            prev.segment == cur.segment && (prev.t_max().ceil() - reserve_now) * r_hi > margin - 2.0
        }
        // C01: upsampling with f_cutoff = calculate_cutoff and a tone so close to the passband
        // edge that its first image lies in the near stopband of the window
        "near_edge_image_upsampling" => {
            let x = &finding["x"];
            let w = x["window"].as_str().unwrap_or("");
            let frac = x["tone_frac"].as_f64().unwrap_or(0.0);
            let len = x["sinc_len"].as_u64().unwrap_or(0);
            x["family"] == "sinc"
                && x["cc"] == true
                && x["ratio"].as_f64().unwrap_or(0.0) > 1.0
                && ((w == "Hann" && frac >= 0.9) || ((w == "Hann2" || w == "Blackman") && len < 128 && frac >= 0.999))
        }
        // C01: downsampling so far that the whole passband (f_cutoff * ratio, in units of the
        // input Nyquist frequency) is barely wider than the main lobe of the window's transform
        // (half-width 1 - calculate_cutoff): the far-side sidelobes of the window no longer
        // contribute and a tone at the very edge of the passband loses slightly more than the
        // 1 % allowed for Hann
        "passband_narrower_than_window_lobe" => {
            let x = &finding["x"];
            let len = x["sinc_len"].as_u64().unwrap_or(0) as usize;
            let ratio = x["ratio"].as_f64().unwrap_or(1.0);
            let frac = x["tone_frac"].as_f64().unwrap_or(0.0);
            if !(x["family"] == "sinc" && x["window"] == "Hann" && len >= 8 && ratio < 1.0 && frac >= 0.999) {
                return false;
            }
            let ccv = rubato::calculate_cutoff::<f32>(len, rubato::WindowFunction::Hann) as f64;
            let fc = if x["cc"] == true { ccv } else { 0.8 };
            fc * ratio < argf(args, "lobes", 1.5) * (1.0 - ccv)
        }
        // C02: a cutoff so low (f_cutoff * min(1, ratio) a small fraction of the window's
        // transition half-width) that the filter is all window: the bare window transform reaches
        // the rejection figure slightly later than the fitted transition width; the finding is the
        // few-dB miss right at the stopband edge, nothing larger
        "cutoff_far_below_window_lobe" => {
            let x = &finding["x"];
            let len = x["sinc_len"].as_u64().unwrap_or(0) as usize;
            let ratio = x["ratio"].as_f64().unwrap_or(1.0);
            let fc = x["f_cutoff"].as_f64().unwrap_or(1.0);
            let excess = x["excess_dB"].as_f64().unwrap_or(f64::INFINITY);
            let wname = x["window"].as_str().unwrap_or("");
            let Some(w) = crate::cfg::WINDOWS.iter().copied().find(|w| crate::cfg::window_name(*w) == wname) else {
                return false;
            };
            if !(x["family"] == "sinc" && len >= 8) {
                return false;
            }
            let ccv = rubato::calculate_cutoff::<f32>(len, w) as f64;
            fc * ratio.min(1.0) < argf(args, "lobes", 0.1) * (1.0 - ccv) && excess <= argf(args, "max_excess_dB", 6.0)
        }
        // the last processing call runs a ramp
        "ramp_in_last_call" => cs.last().map(|c| c.r_cur != c.r_tgt).unwrap_or(false),
        // any ramp anywhere before the violation
        "any_ramp" => cs.iter().any(|c| c.r_cur != c.r_tgt),
        // a ramped call on a chunk so small that the per-frame increment is applied more often
        // than the estimated number of frames
        "ramp_on_tiny_chunk" => {
            let limit = argf(args, "max_frames", 4.0);
            cs.iter().any(|c| {
                c.r_cur != c.r_tgt && (c.chunk as f64) * 0.5 * (c.r_cur + c.r_tgt) < limit
            })
        }
        // the coarsest reachable step exceeds what the fixed pre-roll / margins were sized for
        "coarse_step_config" => {
            let limit = argf(args, "limit", l - 1.0);
            (cfg.max_rel / cfg.ratio).ceil() > limit
        }
        "kind_is_sinc" => cfg.kind.is_sinc(),
        "oversampling_one_poly" => {
            cfg.kind.is_sinc()
                && cfg.oversampling == 1
                && matches!(cfg.interp, crate::cfg::Interp::Cubic | crate::cfg::Interp::Quadratic)
        }
        // the smaller FFT block has fewer points than the range calculate_cutoff was fitted for
        "fft_block_below" => {
            let limit = argf(args, "limit", 32.0) as usize;
            cfg.kind.is_fft() && {
                let (a, b) = fft_sizes(cfg);
                a.min(b) < limit
            }
        }
        _ => false,
    }
}

/// FFT block sizes as the constructors compute them.
pub fn fft_sizes(cfg: &Cfg) -> (usize, usize) {
    fn gcd(a: usize, b: usize) -> usize {
        if b == 0 {
            a
        } else {
            gcd(b, a % b)
        }
    }
    let g = gcd(cfg.rate_in, cfg.rate_out).max(1);
    let (min_in, min_out) = (cfg.rate_in / g, cfg.rate_out / g);
    // (whole blocks, counted with integers; at least one block for the types with sub-chunks)
    let ceil_div = |a: usize, b: usize| (a + b - 1) / b.max(1);
    let chunks = match cfg.kind {
        Kind::XX => ceil_div(cfg.chunk, min_in),
        Kind::XI => ceil_div(cfg.chunk / cfg.sub_chunks.max(1), min_in).max(1),
        Kind::XO => ceil_div(cfg.chunk / cfg.sub_chunks.max(1), min_out).max(1),
        _ => 0,
    };
    (chunks * min_in, chunks * min_out)
}

pub fn classify<'a>(
    entries: &'a [Entry],
    prop: &str,
    sig: &str,
    cfg: &Cfg,
    history: &[Op],
    finding: &Value,
) -> Option<&'a Entry> {
    entries.iter().find(|e| {
        e.status == "open"
            && e.property == prop
            && (e.kinds.is_empty() || e.kinds.iter().any(|k| k == cfg.kind.name()))
            && (e.sigs.is_empty() || e.sigs.iter().any(|s| sig.starts_with(s.as_str())))
            && trigger(&e.trigger, &e.args, cfg, history, finding)
    })
}
