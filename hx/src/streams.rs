//! Stream-level checks on the real code:
//!  C05 — chunking / variant independence (all chunk sizes of a list, all set_chunk_size
//!        schedules of a menu, all FFT (chunk, sub_chunks) pairs resolving to one block size)
//!  C07 — frame accounting without drift (lasso: tail + cycle of the default-step orbit)

use crate::any::fp_ctrl;
use crate::cfg::{Cfg, Degree, Interp, Kernel, Kind};
use crate::frame::{Check, JournalFile, Tier};
use crate::kf::fft_sizes;
use crate::ops::{history_text, Op};
use crate::run::{Res, Runner, Signal};
use serde_json::{json, Map, Value};
use std::collections::HashMap;

// ------------------------------------------------------------------------------------------
// common: drive a resampler over a stream
// ------------------------------------------------------------------------------------------

/// One step of a chunk-size schedule: set chunk size `c`, then `k` processing calls.
pub type Schedule = Vec<(usize, usize)>;

pub struct StreamOut {
    pub out: Vec<f64>,
    pub consumed: usize,
    pub calls: usize,
    pub error: Option<String>,
    pub history: Vec<Op>,
}

/// Feed at least `n_in` input frames (channel 0 observed), following `schedule` cyclically
/// (empty schedule: constant chunk size).
pub fn drive(cfg: &Cfg, schedule: &Schedule, n_in: usize) -> Result<StreamOut, String> {
    drive_prefixed(cfg, &[], schedule, n_in)
}

thread_local! {
    /// extra (input, output) frames handed to every plain call of the streams driven on this thread
    static GENEROUS: std::cell::Cell<(usize, usize)> = const { std::cell::Cell::new((0, 0)) };
}

/// As `drive`, after the operations of `prefix` (processing calls contribute to the stream).
pub fn drive_prefixed(cfg: &Cfg, prefix: &[Op], schedule: &Schedule, n_in: usize) -> Result<StreamOut, String> {
    let mut r = Runner::<f64>::new(cfg, Signal::Noise)?;
    r.keep_out = true;
    r.generous = GENEROUS.with(|g| g.get());
    let mut so = StreamOut {
        out: Vec::new(),
        consumed: 0,
        calls: 0,
        error: None,
        history: Vec::new(),
    };
    for op in prefix {
        let o = r.apply(*op);
        so.history.push(*op);
        match o.res {
            Res::Ok(i, n) => {
                so.calls += 1;
                so.consumed += i;
                if let Some(ch) = o.out.first() {
                    so.out.extend_from_slice(&ch[..n.min(ch.len())]);
                }
            }
            Res::Unit => {}
            other => {
                so.error = Some(format!("{} -> {}", op.text(), other.text()));
                return Ok(so);
            }
        }
    }
    let mut slot = 0usize;
    'outer: loop {
        let reps = if schedule.is_empty() {
            1
        } else {
            let (c, k) = schedule[slot % schedule.len()];
            slot += 1;
            let o = r.apply(Op::C(c));
            so.history.push(Op::C(c));
            if !o.res.is_ok() {
                so.error = Some(format!("C({}) -> {}", c, o.res.text()));
                break;
            }
            k
        };
        for _ in 0..reps {
            let o = r.apply(Op::P);
            so.history.push(Op::P);
            so.calls += 1;
            match o.res {
                Res::Ok(i, n) => {
                    so.consumed += i;
                    if let Some(ch) = o.out.first() {
                        so.out.extend_from_slice(&ch[..n.min(ch.len())]);
                    }
                }
                other => {
                    so.error = Some(format!("P -> {}", other.text()));
                    break 'outer;
                }
            }
            if so.consumed >= n_in {
                break 'outer;
            }
        }
    }
    Ok(so)
}

fn max_abs_diff(a: &[f64], b: &[f64], skip: &dyn Fn(usize) -> bool) -> (f64, usize, usize) {
    let n = a.len().min(b.len());
    let mut worst = 0.0;
    let mut at = 0;
    for i in 0..n {
        if skip(i) {
            continue;
        }
        let d = (a[i] - b[i]).abs();
        if !(d <= worst) {
            worst = d;
            at = i;
        }
    }
    (worst, at, n)
}

// ------------------------------------------------------------------------------------------
// C05
// ------------------------------------------------------------------------------------------

pub struct C05;

#[derive(Clone, Debug)]
enum Fam {
    Sinc { l: usize, os: usize, interp: Interp, ratio: f64 },
    Fast { degree: Degree, ratio: f64 },
    /// all (kind, chunk, sub) configurations that resolve to this block (fft_in, fft_out)
    Fft { rate_in: usize, rate_out: usize },
}

const C05_RATIOS: [f64; 10] = [0.25, 0.5, 0.8, 1.0, 1.2, 1.5, 2.0, 3.3, 4.0, 147.0 / 160.0];

fn c05_fams(tier: Tier) -> Vec<Fam> {
    let q = tier == Tier::Quick;
    let mut v = Vec::new();
    let ratios: Vec<f64> = if q { vec![0.25, 0.5, 0.8, 1.0, 1.2, 3.3, 4.0, 147.0 / 160.0] } else { C05_RATIOS.to_vec() };
    let sincs: Vec<(usize, usize, Interp)> = if q {
        vec![(16, 16, Interp::Cubic), (16, 16, Interp::Linear), (16, 4, Interp::Nearest), (16, 2, Interp::Nearest), (64, 128, Interp::Quadratic)]
    } else {
        vec![
            (16, 16, Interp::Cubic),
            (16, 16, Interp::Quadratic),
            (16, 16, Interp::Linear),
            (16, 4, Interp::Nearest),
            // ratio 4 or 0.8 with two sub-filters: every other frame lies exactly half-way
            // between two sub-filters
            (16, 2, Interp::Nearest),
            (16, 1, Interp::Nearest),
            (64, 128, Interp::Cubic),
            (64, 128, Interp::Linear),
        ]
    };
    let degrees: Vec<Degree> = Degree::ALL.to_vec();
    // extreme decimation: the step between output frames is longer than the filter (and than
    // the history the fixed-input types keep in front of a chunk)
    v.push(Fam::Sinc { l: 8, os: 16, interp: Interp::Cubic, ratio: 1.0 / 16.0 });
    v.push(Fam::Sinc { l: 16, os: 16, interp: Interp::Linear, ratio: 1.0 / 40.0 });
    if !q {
        v.push(Fam::Sinc { l: 32, os: 32, interp: Interp::Cubic, ratio: 1.0 / 40.0 });
        v.push(Fam::Sinc { l: 64, os: 16, interp: Interp::Quadratic, ratio: 500.0 / 48000.0 });
    }
    // custom interpolators of odd length: both variants have to agree on where "half a filter
    // before the first frame" is
    v.push(Fam::Sinc { l: 9, os: 2, interp: Interp::Linear, ratio: 1.0 });
    v.push(Fam::Sinc { l: 9, os: 2, interp: Interp::Cubic, ratio: 0.9 });
    v.push(Fam::Sinc { l: 15, os: 4, interp: Interp::Quadratic, ratio: 1.25 });
    // decimation by 3.3 and by 8 (the ratio is quadrupled in one step at a fixed input frame)
    v.push(Fam::Sinc { l: 16, os: 16, interp: Interp::Cubic, ratio: 0.3 });
    v.push(Fam::Sinc { l: 16, os: 16, interp: Interp::Linear, ratio: 0.125 });
    v.push(Fam::Fast { degree: Degree::Cubic, ratio: 1.0 / 12.0 });
    v.push(Fam::Fast { degree: Degree::Septic, ratio: 1.0 / 40.0 });
    for &ratio in &ratios {
        for &(l, os, interp) in &sincs {
            v.push(Fam::Sinc { l, os, interp, ratio });
        }
        for &degree in &degrees {
            v.push(Fam::Fast { degree, ratio });
        }
    }
    let maxrate = if q { 7 } else { 12 };
    for a in 1..=maxrate {
        for b in 1..=maxrate {
            v.push(Fam::Fft { rate_in: a, rate_out: b });
        }
    }
    for (a, b) in [(147, 160), (160, 147), (441, 80)] {
        v.push(Fam::Fft { rate_in: a, rate_out: b });
    }
    v
}

/// Setter sequences on a fresh resampler after which the ratio (current and target) is the
/// original one again, with no processing call in between.
fn cancelling_prefixes() -> Vec<Vec<Op>> {
    vec![
        vec![Op::R(1.25, true), Op::R(1.0, false)],
        vec![Op::R(1.25, true), Op::R(1.0, true), Op::R(1.0, false)],
        vec![Op::R(0.8, false), Op::R(1.0, false)],
        vec![Op::R(1.25, true), Op::R(1.25, false), Op::R(1.0, false)],
        vec![Op::R(0.8, false), Op::R(1.0, true), Op::R(1.0, false)],
    ]
}

fn chunk_list(l: usize) -> Vec<usize> {
    let mut v = vec![1, 2, 3, 5, 8, 13, l - 1, l, l + 1, 2 * l + 1, 64, 100, 257];
    v.sort();
    v.dedup();
    v
}

fn schedules(tier: Tier, l: usize, max: usize) -> Vec<Schedule> {
    let cs: Vec<usize> = if tier == Tier::Quick { vec![1, l, max] } else { vec![1, 3, l, max / 2, max] };
    // k = 0: set_chunk_size immediately followed by the next set_chunk_size (a size that is
    // set and replaced before it is ever used)
    let ks: Vec<usize> = if tier == Tier::Quick { vec![0, 1, 2] } else { vec![0, 1, 2, 5] };
    let mut slots = Vec::new();
    for &c in &cs {
        for &k in &ks {
            slots.push((c, k));
        }
    }
    let mut out = Vec::new();
    for a in &slots {
        for b in &slots {
            for c in &slots {
                if a.1 + b.1 + c.1 == 0 {
                    continue;
                }
                out.push(vec![*a, *b, *c]);
            }
        }
    }
    out
}

struct C05Acc {
    evals: u64,
    nontrivial: u64,
    found: Vec<Value>,
    worst: f64,
    samples: Vec<Value>,
    outcomes: Vec<String>,
}

/// Nearest-neighbour selection is discontinuous in the position: where the evaluation position
/// lies within 1e-6 of a decision boundary (an integer for the polynomial types, half a
/// sub-filter step for the sinc types) a rounding difference of the accumulated position
/// legitimately selects the other neighbour. Those frames are excluded from the comparison.
fn nearest_tie(cfg: &Cfg, j: usize) -> bool {
    // a step with a short binary expansion is accumulated without any rounding: every chunking
    // sees exactly the same position, ties included, and must resolve them the same way
    let step = 1.0 / cfg.ratio;
    if (step * 1024.0).fract() == 0.0 {
        return false;
    }
    let pos = (j + 1) as f64 / cfg.ratio;
    match cfg.kind {
        Kind::FI | Kind::FO if cfg.degree == Degree::Nearest => (pos - pos.round()).abs() < 1e-6,
        Kind::SI | Kind::SO if cfg.interp == Interp::Nearest => {
            let x = pos * cfg.oversampling as f64 - 0.5;
            (x - x.round()).abs() < 1e-6
        }
        _ => false,
    }
}

fn c05_compare(acc: &mut C05Acc, cfg: &Cfg, sched: &Schedule, reference: &[f64], tol: f64, n_in: usize, journal: Option<&JournalFile>) -> Result<(), String> {
    c05_compare_p(acc, cfg, &[], sched, reference, tol, n_in, journal)
}

#[allow(clippy::too_many_arguments)]
/// The same comparison with every plain call handed `extra` frames more input (the frames that
/// follow in the signal) and output room than it needs.
fn c05_compare_generous(acc: &mut C05Acc, cfg: &Cfg, extra: (usize, usize), reference: &[f64], tol: f64, n_in: usize, journal: Option<&JournalFile>) -> Result<(), String> {
    GENEROUS.with(|g| g.set(extra));
    let before = acc.found.len();
    let r = c05_compare_p(acc, cfg, &[], &vec![], reference, tol, n_in, journal);
    GENEROUS.with(|g| g.set((0, 0)));
    for f in acc.found.iter_mut().skip(before) {
        f["sig"] = json!("generous-buffers-change-output");
        f["point"] = json!(format!("generous {} {}", extra.0, extra.1));
        f["detail"] = json!(format!("every call handed {} input and {} output frames more than needed: {}", extra.0, extra.1, f["detail"].as_str().unwrap_or("")));
    }
    r
}

fn c05_compare_p(acc: &mut C05Acc, cfg: &Cfg, prefix: &[Op], sched: &Schedule, reference: &[f64], tol: f64, n_in: usize, journal: Option<&JournalFile>) -> Result<(), String> {
    if let Some(j) = journal {
        j.write(&cfg.to_json(), &format!("prefix {} schedule {:?}", history_text(prefix), sched));
    }
    let s = drive_prefixed(cfg, prefix, sched, n_in)?;
    acc.evals += 1;
    let hist = if s.history.len() > 40 { history_text(&s.history[..40]) + " ..." } else { history_text(&s.history) };
    if let Some(e) = &s.error {
        // failing calls are C03's business; a stream that stops early has nothing to compare
        acc.outcomes.push(format!("{}:error", cfg.kind.name()));
        if acc.found.len() < 40 {
            acc.found.push(json!({"prop": "C05", "sig": "stream-aborted", "detail": format!("stream stopped after {} calls: {}", s.calls, e), "cfg": cfg.to_json(), "history": hist, "point": format!("schedule {:?}", sched)}));
        }
        return Ok(());
    }
    let (d, at, n) = max_abs_diff(&s.out, reference, &|j| prefix.is_empty() && nearest_tie(cfg, j));
    if n > 64 {
        acc.nontrivial += 1;
    }
    acc.worst = acc.worst.max(d);
    acc.outcomes.push(format!("{}:{}", cfg.kind.name(), if d == 0.0 { "identical" } else if d <= tol { "rounding" } else { "DIFFERENT" }));
    if !(d <= tol) && acc.found.len() < 40 {
        acc.found.push(json!({
            "prop": "C05", "sig": if sched.is_empty() { "chunking-changes-output" } else { "chunk-schedule-changes-output" },
            "detail": format!("output differs from the reference stream by {:e} at output frame {} (common prefix {} frames, tolerance {:e})", d, at, n, tol),
            "cfg": cfg.to_json(), "history": hist, "point": format!("schedule {:?}", sched),
        }));
    }
    if acc.samples.len() < 2 {
        acc.samples.push(json!({"cfg": cfg.short(), "schedule": format!("{:?}", sched), "compared_frames": n, "max_abs_diff": d}));
    }
    Ok(())
}

impl Check for C05 {
    fn id(&self) -> &'static str {
        "C05"
    }
    fn level(&self) -> &'static str {
        "model_checking"
    }
    fn engine(&self) -> &'static str {
        "E1 unmerged: exhaustive enumeration of chunk sizes and set_chunk_size schedules on the real objects, stream comparison"
    }
    fn n_items(&self, tier: Tier) -> usize {
        c05_fams(tier).len()
    }
    fn run_item(&self, tier: Tier, idx: usize, journal: Option<&JournalFile>) -> Result<Value, String> {
        let fam = c05_fams(tier).into_iter().nth(idx).ok_or("no item")?;
        let mut acc = C05Acc { evals: 0, nontrivial: 0, found: vec![], worst: 0.0, samples: vec![], outcomes: vec![] };
        let n_in = if tier == Tier::Quick { 1200 } else { 2500 };
        // (enough input for a few hundred output frames at extreme decimation too)
        let fam_ratio = match fam {
            Fam::Sinc { ratio, .. } | Fam::Fast { ratio, .. } => ratio,
            _ => 1.0,
        };
        let n_in = if fam_ratio < 0.1 { (n_in as f64 * 0.25 / fam_ratio) as usize } else { n_in };
        let tol = 1e-8;
        let label;
        match fam {
            Fam::Sinc { l, os, interp, ratio } => {
                label = format!("sinc L{} os{} {} r={:?}", l, os, interp.name(), ratio);
                // odd filter lengths exist only with custom interpolators (the index probe keeps the
                // length it is given; its output is a fixed function of the read position)
                let kernel = if l % 2 == 1 { Kernel::Probe } else { Kernel::Dispatch };
                let mk = |kind: Kind, chunk: usize| {
                    let mut c = Cfg::sinc(kind, ratio, 1.0, chunk, l, os, interp, kernel);
                    c.window = rubato::WindowFunction::BlackmanHarris2;
                    c
                };
                let reference = drive(&mk(Kind::SI, 257), &vec![], n_in)?;
                if let Some(e) = reference.error {
                    return Err(format!("reference stream failed: {}", e));
                }
                for kind in [Kind::SI, Kind::SO] {
                    for chunk in chunk_list(l) {
                        c05_compare(&mut acc, &mk(kind, chunk), &vec![], &reference.out, tol, n_in, journal)?;
                        c05_compare_generous(&mut acc, &mk(kind, chunk), (2 * chunk + 3, 3 * chunk + 5), &reference.out, tol, n_in, journal)?;
                    }
                    let max = 64;
                    for s in schedules(tier, l, max) {
                        c05_compare(&mut acc, &mk(kind, max), &s, &reference.out, tol, n_in.min(900), journal)?;
                    }
                    // a ratio step at the same input frame (1024) under different chunkings of the
                    // whole stream, fixed-input variant (what a call leaves in the history depends
                    // on its chunk size; what the next call expects there on the new ratio)
                    if kind == Kind::SI && (ratio == 0.25 || ratio == 0.3 || ratio == 0.125) && l >= 16 && interp != Interp::Nearest {
                        for at in [1024usize, 1536, 2048] {
                            let with_step = |chunk: usize| -> (Cfg, Vec<Op>) {
                                let mut c = mk(kind, chunk);
                                c.max_rel = 4.0;
                                let mut p = vec![Op::P; at / chunk];
                                p.push(Op::R(4.0, false));
                                (c, p)
                            };
                            let (c0, p0) = with_step(64);
                            let r0 = drive_prefixed(&c0, &p0, &vec![], 6000)?;
                            if let Some(e) = r0.error {
                                return Err(format!("reference stream with a ratio step failed: {}", e));
                            }
                            for chunk in [256usize, 128, 32, 512] {
                                let (c, p) = with_step(chunk);
                                c05_compare_p(&mut acc, &c, &p, &vec![], &r0.out, tol, 6000, journal)?;
                            }
                        }
                    }
                    // a ramp in a chunk of 32 frames: on a resampler constructed for 32 frames, and
                    // on resamplers constructed for 64 / 160 frames that were told set_chunk_size(32)
                    // first (same calls, same chunks, same ratio schedule)
                    if interp != Interp::Nearest {
                        for ramp_to in [1.25, 0.8] {
                            let mut c0 = mk(kind, 32);
                            c0.max_rel = 2.0;
                            let p0 = vec![Op::P, Op::R(ramp_to, true), Op::P, Op::P, Op::R(1.0, true)];
                            let r0 = drive_prefixed(&c0, &p0, &vec![], 700)?;
                            if let Some(e) = r0.error {
                                return Err(format!("reference stream with a ramp failed: {}", e));
                            }
                            for big in [64usize, 160] {
                                let mut c = mk(kind, big);
                                c.max_rel = 2.0;
                                let mut p = vec![Op::C(32)];
                                p.extend_from_slice(&p0);
                                c05_compare_p(&mut acc, &c, &p, &vec![], &r0.out, tol, 700, journal)?;
                            }
                        }
                    }
                    // setter calls that cancel each other before any frame is processed leave the
                    // constant ratio schedule: the stream must be the reference stream
                    if interp != Interp::Nearest {
                        let mut c = mk(kind, max);
                        c.max_rel = 2.0;
                        for prefix in cancelling_prefixes() {
                            c05_compare_p(&mut acc, &c, &prefix, &vec![], &reference.out, tol, n_in.min(900), journal)?;
                        }
                    }
                    // the same schedules after a common prefix that ends with a completed ramp
                    // (the ratio schedule is identical in all runs, only the chunking after the
                    // ramped call differs); not for Nearest (ties move with the ratio)
                    if interp != Interp::Nearest {
                        let mut c = mk(kind, max);
                        let jump = ratio == 0.25 && l >= 16;
                        c.max_rel = if jump { 4.0 } else { 2.0 };
                        let mut prefixes = vec![vec![Op::P, Op::P, Op::R(0.8, true), Op::P], vec![Op::P, Op::R(1.25, true), Op::P]];
                        if jump {
                            // decimating by 4, then four times the ratio in one step (no ramp: a
                            // ramp would last one chunk, whose size the schedules vary): the
                            // position still trails by the old step when the first chunk at the
                            // new ratio arrives. (Stronger decimation with such a jump is KF-D.)
                            prefixes.push(vec![Op::P, Op::P, Op::R(4.0, false)]);
                            prefixes.push(vec![Op::P, Op::R(2.0, false), Op::P, Op::R(4.0, false)]);
                        }
                        for prefix in prefixes {
                            let r2 = drive_prefixed(&c, &prefix, &vec![], n_in.min(900))?;
                            if let Some(e) = r2.error {
                                return Err(format!("reference stream with prefix failed: {}", e));
                            }
                            for (k, s) in schedules(tier, l, max).into_iter().enumerate() {
                                // every fourth schedule (the full product is run without the prefix)
                                if k % 4 != 0 {
                                    continue;
                                }
                                c05_compare_p(&mut acc, &c, &prefix, &s, &r2.out, tol, n_in.min(900), journal)?;
                            }
                        }
                    }
                }
            }
            Fam::Fast { degree, ratio } => {
                label = format!("fast {} r={:?}", degree.name(), ratio);
                let reference = drive(&Cfg::fast(Kind::FI, ratio, 1.0, 257, degree), &vec![], n_in)?;
                if let Some(e) = reference.error {
                    return Err(format!("reference stream failed: {}", e));
                }
                for kind in [Kind::FI, Kind::FO] {
                    for chunk in chunk_list(8) {
                        c05_compare_generous(&mut acc, &Cfg::fast(kind, ratio, 1.0, chunk, degree), (2 * chunk + 3, 3 * chunk + 5), &reference.out, tol, n_in, journal)?;
                        c05_compare(&mut acc, &Cfg::fast(kind, ratio, 1.0, chunk, degree), &vec![], &reference.out, tol, n_in, journal)?;
                    }
                    if degree != Degree::Nearest {
                        for prefix in cancelling_prefixes() {
                            c05_compare_p(&mut acc, &Cfg::fast(kind, ratio, 2.0, 64, degree), &prefix, &vec![], &reference.out, tol, n_in.min(900), journal)?;
                        }
                    }
                }
            }
            Fam::Fft { rate_in, rate_out } => {
                label = format!("fft {}->{}", rate_in, rate_out);
                // group every (kind, chunk, sub) by the block size it resolves to
                let maxchunk = if tier == Tier::Quick { 64 } else { 256 };
                let mut groups: HashMap<(usize, usize), Vec<Cfg>> = HashMap::new();
                for chunk in 1..=maxchunk {
                    for sub in 1..=4usize {
                        for kind in [Kind::XI, Kind::XO] {
                            let c = Cfg::fft(kind, rate_in, rate_out, chunk, sub);
                            groups.entry(fft_sizes(&c)).or_default().push(c);
                        }
                    }
                    let c = Cfg::fft(Kind::XX, rate_in, rate_out, chunk, 1);
                    groups.entry(fft_sizes(&c)).or_default().push(c);
                }
                let mut keys: Vec<_> = groups.keys().copied().collect();
                keys.sort();
                for key in keys {
                    let g = &groups[&key];
                    if key.0 == 0 || key.1 == 0 {
                        continue;
                    }
                    // reference: the FftFixedInOut of this block if present, else the first
                    let refcfg = g.iter().find(|c| c.kind == Kind::XX).unwrap_or(&g[0]).clone();
                    let n = (8 * key.0).max(600).min(6000);
                    let reference = drive(&refcfg, &vec![], n)?;
                    if let Some(e) = reference.error {
                        return Err(format!("reference stream failed: {}", e));
                    }
                    for c in g {
                        // same FFT block: bit-identical
                        c05_compare(&mut acc, c, &vec![], &reference.out, 0.0, n, journal)?;
                        // ... also when the caller's slices are longer than the call needs, by less
                        // than a block, by whole blocks, on either side or both
                        if c.chunk % 7 == 0 || c.chunk == key.0 || c.chunk == key.1 || c.chunk == 2 * key.0 {
                            for extra in [(2 * key.0 + 1, 0), (0, 2 * key.1 + 1), (2 * key.0, 2 * key.1), (key.0 - 1, 3 * key.1 + 2)] {
                                c05_compare_generous(&mut acc, c, extra, &reference.out, 0.0, n, journal)?;
                            }
                        }
                    }
                }
            }
        }
        acc.outcomes.sort();
        acc.outcomes.dedup();
        Ok(json!({
            "label": label, "states": acc.evals, "transitions": acc.evals,
            "evaluations": acc.evals, "nontrivial": acc.nontrivial,
            "outcomes": acc.outcomes, "found": acc.found, "samples": acc.samples,
            "extra": {"worst": acc.worst},
        }))
    }
    fn finalize(&self, _tier: Tier, items: &[Value], cov: &mut Map<String, Value>) {
        let w = items.iter().map(|v| v["extra"]["worst"].as_f64().unwrap_or(0.0)).fold(0.0, f64::max);
        cov.insert("worst_abs_difference_between_streams".into(), json!(w));
        cov.insert("tolerance".into(), json!("1e-8 (peak 1) for the asynchronous types, 0 (bit-identical) for FFT configurations of equal block size"));
        cov.insert("states_note".into(), json!("states/transitions count complete streams (one per chunk size or schedule), each of hundreds of real calls"));
    }
    fn replay(&self, replay: &Value) -> Result<(bool, String), String> {
        crate::frame::replay_by_item(self, replay)
    }
    fn rule(&self, _tier: Tier) -> String {
        "per algorithm family and ratio: one reference stream (fixed-input, chunk 257) and every run of {FixedIn, FixedOut} x every chunk size of {1,2,3,5,8,13,L-1,L,L+1,2L+1,64,100,257} x (sinc) every 3-slot set_chunk_size schedule over the (size, calls) menu (calls = 0 included: a size set and replaced before use), every fourth schedule also after a common prefix that ends with a completed ramp, on a fixed pseudo-random signal; FFT: every (type, chunk<=256, sub_chunks<=4) grouped by resolved block size, bit-identical within a group. Non-trivial = compared prefix longer than 64 frames".into()
    }
    fn assumptions(&self) -> Vec<String> {
        vec![
            "linearity: a broadband pseudo-random signal exposes any lost, duplicated or stale frame as an O(1) difference".into(),
            "nearest-neighbour modes: frames whose evaluation position lies within 1e-6 of a selection boundary are excluded (the selected neighbour legitimately depends on rounding of the accumulated position)".into(),
            "stream length 900-2500 input frames per run".into(),
        ]
    }
    fn vacuity(&self, _tier: Tier) -> (u64, u64) {
        (200, 3)
    }
}

// ------------------------------------------------------------------------------------------
// C07
// ------------------------------------------------------------------------------------------

pub struct C07;

#[derive(Clone, Debug)]
struct C07Item {
    cfgs: Vec<(Cfg, Schedule)>,
    /// horizon override (fine-grid orbits are millions of calls long)
    horizon: Option<usize>,
}

/// Schedule entry (MASKED, k): k processing calls whose mask has every channel off.
const MASKED: usize = usize::MAX;
/// Schedule entry (RAMP_THEN_STEP, k), first entry only: before the stream, the relative ratio
/// k/1000 is requested with a ramp and then again without (the second request replaces the
/// pending ramp: a constant-ratio stream at ratio * k/1000 from the first frame on).
const RAMP_THEN_STEP: usize = usize::MAX - 1;
/// Schedule entry (STEP_PPB, k), first entry only: before the stream the relative ratio
/// 1 + k * 1e-9 is requested (no ramp): a constant-ratio stream at that ratio.
const STEP_PPB: usize = usize::MAX - 2;

/// A ratio r (as an f64) whose reciprocal, as the resamplers compute it (1.0 / r), is exactly
/// the dyadic step `t`.
fn ratio_for_step(t: f64) -> Option<f64> {
    let r0 = 1.0 / t;
    let cands = [r0, f64::from_bits(r0.to_bits() + 1), f64::from_bits(r0.to_bits() - 1)];
    cands.into_iter().find(|r| 1.0 / *r == t)
}

/// Steps 1 -+ 2^-22: finer than what an f32 can hold next to the carried position (|position| in
/// [8, 16) has an f32 grid of 2^-20), exactly representable in f64, so that the orbit of the
/// unmodified code closes after 2^22 one-frame calls.
fn fine_steps() -> Vec<f64> {
    let e = (2.0f64).powi(-22);
    vec![1.0 - e, 1.0 + e]
}

fn c07_items(tier: Tier) -> Vec<C07Item> {
    let q = tier == Tier::Quick;
    let closing: Vec<f64> = vec![1.0 / 16.0, 0.25, 0.5, 0.8, 1.0, 1.6, 2.0, 4.0, 16.0];
    let nonclosing: Vec<f64> = if q { vec![147.0 / 160.0, 1.2] } else { vec![147.0 / 160.0, 160.0 / 147.0, 1.2, 0.3] };
    let chunks: Vec<usize> = if q { vec![1, 2, 7, 64] } else { vec![1, 2, 7, 8, 16, 64, 100] };
    let mut items = Vec::new();
    for ratio in closing.iter().chain(nonclosing.iter()) {
        for &chunk in &chunks {
            let mut cfgs: Vec<(Cfg, Schedule)> = Vec::new();
            for kind in [Kind::SI, Kind::SO] {
                for (l, os, interp) in [(8, 2, Interp::Cubic), (8, 2, Interp::Nearest), (16, 4, Interp::Linear), (16, 3, Interp::Quadratic), (64, 16, Interp::Nearest)] {
                    let c = Cfg::sinc(kind, *ratio, 1.0, chunk, l, os, interp, Kernel::Probe);
                    cfgs.push((c.clone(), vec![]));
                    if l == 8 || os == 4 {
                        // every call, or three calls out of five, with all channels masked out
                        cfgs.push((c.clone(), vec![(MASKED, 1)]));
                        cfgs.push((c.clone(), vec![(MASKED, 3), (chunk, 2)]));
                    }
                    if chunk >= 7 {
                        // periodic chunk-size schedules
                        cfgs.push((c.clone(), vec![(1, 3), (chunk, 2)]));
                        cfgs.push((c.clone(), vec![(chunk / 2, 1), (chunk, 1), (1, 5)]));
                        cfgs.push((c.clone(), vec![(1, 0), (chunk, 2), (chunk / 2, 0), (2, 1)]));
                    }
                }
            }
            for kind in [Kind::FI, Kind::FO] {
                for d in [Degree::Septic, Degree::Linear, Degree::Nearest] {
                    cfgs.push((Cfg::fast(kind, *ratio, 1.0, chunk, d), vec![]));
                    if d == Degree::Linear {
                        cfgs.push((Cfg::fast(kind, *ratio, 1.0, chunk, d), vec![(MASKED, 1)]));
                    }
                }
            }
            items.push(C07Item { cfgs, horizon: None });
        }
    }
    // fine-grid steps, chunk size 1: millions of 1-frame chunks, orbit closes after 2^22 calls
    for t in fine_steps() {
        let Some(ratio) = ratio_for_step(t) else { continue };
        let mut fine: Vec<Cfg> = vec![
            Cfg::fast(Kind::FO, ratio, 1.0, 1, Degree::Linear),
            Cfg::fast(Kind::FI, ratio, 1.0, 1, Degree::Linear),
        ];
        if !q || t < 1.0 {
            fine.push(Cfg::sinc(Kind::SO, ratio, 1.0, 1, 8, 2, Interp::Nearest, Kernel::Probe));
            fine.push(Cfg::sinc(Kind::SI, ratio, 1.0, 1, 8, 2, Interp::Nearest, Kernel::Probe));
            if !q {
                fine.push(Cfg::fast(Kind::FO, ratio, 1.0, 1, Degree::Septic));
                fine.push(Cfg::fast(Kind::FI, ratio, 1.0, 1, Degree::Septic));
            }
        }
        for c in fine {
            items.push(C07Item { cfgs: vec![(c, vec![])], horizon: Some(3 * (1 << 22) + 1000) });
        }
    }
    // a ramp that is replaced by a step to the same value before any frame is processed: a
    // constant-ratio stream from the first frame on (chunks large enough that half a chunk of
    // ramp exceeds the constant)
    {
        let mut cfgs: Vec<(Cfg, Schedule)> = Vec::new();
        for chunk in [256usize, 1024] {
            for (x, k) in [(1.5, 1500usize), (0.75, 750)] {
                let _ = x;
                for kind in [Kind::SI, Kind::SO] {
                    cfgs.push((Cfg::sinc(kind, 1.0, 2.0, chunk, 16, 4, Interp::Linear, Kernel::Probe), vec![(RAMP_THEN_STEP, k)]));
                }
                for kind in [Kind::FI, Kind::FO] {
                    cfgs.push((Cfg::fast(kind, 1.0, 2.0, chunk, Degree::Linear), vec![(RAMP_THEN_STEP, k)]));
                }
            }
        }
        items.push(C07Item { cfgs, horizon: Some(64) });
    }
    // a trim of 0.9 ppm / 8e-10 (clock-drift tracking) followed by tens of millions of frames:
    // the totals follow the requested ratio, however small the change was
    for k in [900usize, 1] {
        let mut cfgs: Vec<(Cfg, Schedule)> = Vec::new();
        for kind in [Kind::FI, Kind::FO] {
            cfgs.push((Cfg::fast(kind, 1.0, 1.1, 4096, Degree::Nearest), vec![(STEP_PPB, k)]));
        }
        for kind in [Kind::SI, Kind::SO] {
            cfgs.push((Cfg::sinc(kind, 1.0, 1.1, 4096, 8, 2, Interp::Nearest, Kernel::Scalar), vec![(STEP_PPB, k)]));
        }
        if k == 900 || !q {
            items.push(C07Item { cfgs, horizon: Some(if k == 900 { 20_000 } else { 400_000 }) });
        }
    }
    // chunks of more than 2^20 frames (a whole file per call), forty calls
    {
        let mut cfgs: Vec<(Cfg, Schedule)> = Vec::new();
        for chunk in [1_048_577usize, 1_300_000] {
            for kind in [Kind::FI, Kind::FO] {
                cfgs.push((Cfg::fast(kind, 48000.0 / 44100.0, 1.0, chunk, Degree::Linear), vec![]));
            }
            if !q || chunk == 1_048_577 {
                for kind in [Kind::SI, Kind::SO] {
                    cfgs.push((Cfg::sinc(kind, 48000.0 / 44100.0, 1.0, chunk, 8, 2, Interp::Nearest, Kernel::Scalar), vec![]));
                }
            }
        }
        for c in cfgs.chunks(2) {
            items.push(C07Item { cfgs: c.to_vec(), horizon: Some(40) });
        }
    }
    // FFT: every rate pair x chunk x sub
    let maxrate = if q { 8 } else { 12 };
    let maxchunk = if q { 32 } else { 64 };
    let mut pairs: Vec<(usize, usize)> = Vec::new();
    for a in 1..=maxrate {
        for b in 1..=maxrate {
            pairs.push((a, b));
        }
    }
    pairs.extend([(147, 160), (160, 147), (44100, 48000), (48000, 8000)]);
    pairs.extend([(96000, 44100), (11025, 48000)]);
    if !q {
        pairs.extend([(44100, 44110), (192000, 44100), (22050, 16000), (32000, 44100), (37199, 39119), (48000, 44056), (44100, 176400), (8000, 44100)]);
    }
    // wider sweep of rate pairs with three requested sizes each (block-size arithmetic: gcd,
    // rounding of the block count, products that are not exact in floating point)
    let wide = if q { 24 } else { 64 };
    for a in 1..=wide {
        let mut cfgs = Vec::new();
        for b in 1..=wide {
            if a <= maxrate && b <= maxrate {
                continue;
            }
            for chunk in [1usize, 2 * a + 1, 64] {
                for sub in 1..=2usize {
                    if chunk / sub == 0 {
                        continue;
                    }
                    cfgs.push((Cfg::fft(Kind::XI, a, b, chunk, sub), vec![]));
                    cfgs.push((Cfg::fft(Kind::XO, a, b, chunk, sub), vec![]));
                }
                cfgs.push((Cfg::fft(Kind::XX, a, b, chunk, 1), vec![]));
            }
        }
        items.push(C07Item { cfgs, horizon: None });
    }
    if !q {
        // an FFT block of more than 10^5 frames (coprime rates): one fixed-output configuration,
        // followed for 400 calls (the block is produced once and drained over 127 calls)
        items.push(C07Item { cfgs: vec![(Cfg::fft(Kind::XO, 131072, 131071, 1024, 1), vec![])], horizon: Some(400) });
    }
    // rates in the MHz range (DSD-derived: 2 822 400 and 3 072 000 Hz, gcd 19 200) with chunks of
    // hundreds of thousands of frames: blocks x rate exceeds 2^32
    {
        let mut cfgs = Vec::new();
        for (a, b) in [(2_822_400usize, 3_072_000usize), (3_072_000, 2_822_400)] {
            cfgs.push((Cfg::fft(Kind::XI, a, b, 300_000, 1), vec![]));
            cfgs.push((Cfg::fft(Kind::XO, a, b, 300_000, 2), vec![]));
            cfgs.push((Cfg::fft(Kind::XX, a, b, 300_000, 1), vec![]));
        }
        items.push(C07Item { cfgs, horizon: Some(12) });
    }
    for (a, b) in pairs {
        let mut cfgs = Vec::new();
        let chunks: Vec<usize> = if a > 100 { if q { vec![64, 1000] } else { vec![64, 1000, 10000] } } else { (1..=maxchunk).collect() };
        for chunk in chunks {
            for sub in 1..=4usize {
                if chunk / sub == 0 {
                    continue;
                }
                cfgs.push((Cfg::fft(Kind::XI, a, b, chunk, sub), vec![]));
                cfgs.push((Cfg::fft(Kind::XO, a, b, chunk, sub), vec![]));
            }
            cfgs.push((Cfg::fft(Kind::XX, a, b, chunk, 1), vec![]));
        }
        // coprime rates in the tens of thousands: every block is a prime-sized FFT of that many
        // points and every fingerprint covers that many saved frames - a shorter horizon
        let horizon = if a / gcd(a, b) > 20000 { Some(400) } else { None };
        items.push(C07Item { cfgs, horizon });
    }
    items
}

fn gcd(a: usize, b: usize) -> usize {
    if b == 0 {
        a
    } else {
        gcd(b, a % b)
    }
}

struct C07Acc {
    states: u64,
    transitions: u64,
    closed: u64,
    caps: u64,
    found: Vec<Value>,
    outcomes: Vec<String>,
    samples: Vec<Value>,
    worst_margin: f64,
}

fn c07_one(acc: &mut C07Acc, cfg: &Cfg, sched: &Schedule, horizon: usize, journal: Option<&JournalFile>) -> Result<(), String> {
    let mut r = Runner::<f64>::new(cfg, Signal::Zero)?;
    let mut ratio = cfg.nominal_ratio();
    let mut sched_v: Schedule = sched.clone();
    if let Some((RAMP_THEN_STEP, k)) = sched_v.first().copied() {
        let x = k as f64 / 1000.0;
        for op in [Op::R(x, true), Op::R(x, false)] {
            if !matches!(r.apply(op).res, Res::Unit) {
                return Err(format!("{}: {} was rejected", cfg.short(), op.text()));
            }
        }
        ratio *= x;
        sched_v.remove(0);
    }
    if let Some((STEP_PPB, k)) = sched_v.first().copied() {
        let x = 1.0 + k as f64 * 1.0e-9;
        let op = Op::R(x, false);
        if !matches!(r.apply(op).res, Res::Unit) {
            return Err(format!("{}: {} was rejected", cfg.short(), op.text()));
        }
        ratio *= x;
        sched_v.remove(0);
    }
    let sched = &sched_v;
    let l = cfg.filter_len() as f64;
    let bound = ratio * (l + 1.0 / ratio + 3.0) + 3.0;
    let (_fin, fout) = if cfg.kind.is_fft() { fft_sizes(cfg) } else { (0, 0) };
    let (ra, rb) = (cfg.rate_in as u128, cfg.rate_out as u128);
    let mut seen: HashMap<(u64, usize, usize), (usize, u64, u64)> = HashMap::new();
    // beyond MAP_CAP states the map stops growing and Brent's algorithm (one reference state,
    // moved at powers of two) finds the cycle in constant memory
    const MAP_CAP: usize = 50_000;
    let mut brent_ref: Option<((u64, usize, usize), usize, u64, u64)> = None;
    let mut brent_power = 1usize;
    let (mut tin, mut tout) = (0u64, 0u64);
    let mut hist: Vec<Op> = Vec::new();
    // expand the schedule into a cyclic op list
    let mut cyc: Vec<Op> = Vec::new();
    if sched.is_empty() {
        cyc.push(Op::P);
    } else {
        for (c, k) in sched {
            if *c == MASKED {
                // k calls with every channel masked out: nothing is written, but the stream
                // position advances as in any other call
                for _ in 0..*k {
                    cyc.push(Op::PM(0, true));
                }
                continue;
            }
            cyc.push(Op::C(*c));
            for _ in 0..*k {
                cyc.push(Op::P);
            }
        }
    }
    let mut fail = |acc: &mut C07Acc, sig: &str, detail: String, hist: &[Op]| {
        if acc.found.len() < 30 {
            let h = if hist.len() > 60 { format!("{} ... ({} ops)", history_text(&hist[..60]), hist.len()) } else { history_text(hist) };
            acc.found.push(json!({"prop": "C07", "sig": sig, "detail": detail, "cfg": cfg.to_json(), "history": h, "point": format!("schedule {:?}", sched)}));
        }
    };
    if cfg.kind == Kind::XX {
        // block sizes: in*rate_out == out*rate_in, in the smallest such size >= requested chunk
        let g = gcd(cfg.rate_in, cfg.rate_out);
        let step = cfg.rate_in / g;
        let want_in = ((cfg.chunk + step - 1) / step) * step;
        let gt = r.r.getters();
        if gt.in_next != want_in || (gt.in_next as u128) * rb != (gt.out_next as u128) * ra {
            fail(acc, "fftinout-block-size", format!("block {}->{} for requested chunk {} (expected input block {})", gt.in_next, gt.out_next, cfg.chunk, want_in), &hist);
        }
    }
    let mut step_i = 0usize;
    let mut calls = 0usize;
    loop {
        let phase = step_i % cyc.len();
        let key = (fp_ctrl(&r.state()), phase, 0usize);
        let hit: Option<(u64, u64)> = match seen.get(&key) {
            Some((_, pin, pout)) => Some((*pin, *pout)),
            None => match &brent_ref {
                Some((k, _, pin, pout)) if *k == key => Some((*pin, *pout)),
                _ => None,
            },
        };
        if let Some((pin, pout)) = hit {
            // lasso closed: the cycle must carry no drift
            acc.closed += 1;
            let (din, dout) = (tin - pin, tout - pout);
            let step = 1.0 / ratio;
            let exact = if cfg.kind.is_fft() {
                (din as u128) * rb == (dout as u128) * ra
            } else if (step * (2.0f64).powi(24)).fract() == 0.0 && dout < (1 << 28) {
                // dyadic step: out * step == in, computed exactly
                (dout as f64) * step == (din as f64)
            } else {
                (dout as f64) == (din as f64) * ratio
            };
            acc.outcomes.push(format!("{}:closed", cfg.kind.name()));
            if !exact {
                fail(acc, "cycle-drift", format!("over one cycle of the orbit {} frames in give {} frames out, ratio {:?}: the error grows with every cycle", din, dout, ratio), &hist);
            }
            if acc.samples.len() < 3 {
                acc.samples.push(json!({"cfg": cfg.short(), "schedule": format!("{:?}", sched), "tail_plus_cycle_calls": calls, "cycle_in": din, "cycle_out": dout}));
            }
            break;
        }
        if seen.len() < MAP_CAP {
            seen.insert(key, (step_i, tin, tout));
        } else {
            match &brent_ref {
                Some((_, at, _, _)) if step_i - *at < brent_power => {}
                _ => {
                    if brent_ref.is_some() {
                        brent_power *= 2;
                    }
                    brent_ref = Some((key, step_i, tin, tout));
                }
            }
        }
        acc.states += 1;
        if calls >= horizon {
            acc.caps += 1;
            acc.outcomes.push(format!("{}:horizon", cfg.kind.name()));
            break;
        }
        let op = cyc[phase];
        if let Some(j) = journal {
            if sched.is_empty() {
                j.write(&cfg.to_json(), &format!("P*{}", step_i + 1));
            } else {
                let mut h = hist.clone();
                h.push(op);
                j.write(&cfg.to_json(), &history_text(&h));
            }
        }
        let o = r.apply(op);
        acc.transitions += 1;
        if hist.len() < 100 || (journal.is_some() && !sched.is_empty()) {
            hist.push(op);
        }
        step_i += 1;
        match o.res {
            Res::Ok(i, n) => {
                calls += 1;
                tin += i as u64;
                tout += n as u64;
                if cfg.kind.is_fft() {
                    // 0 <= in*b - out*a < fft_out*a  (never negative, less than one block)
                    let lhs = (tin as u128) * rb;
                    let rhs = (tout as u128) * ra;
                    if lhs < rhs {
                        fail(acc, "fft-more-out-than-in", format!("after {} calls: total_in*rate_out {} < total_out*rate_in {}", calls, lhs, rhs), &hist);
                        break;
                    }
                    if lhs - rhs >= (fout as u128) * ra.max(1) {
                        fail(acc, "fft-lag-exceeds-block", format!("after {} calls: total_in*rate_out - total_out*rate_in = {} >= one block ({}*{})", calls, lhs - rhs, fout, ra), &hist);
                        break;
                    }
                    if cfg.kind == Kind::XX && lhs != rhs {
                        fail(acc, "fftinout-not-exact", format!("after {} calls: {} in, {} out", calls, tin, tout), &hist);
                        break;
                    }
                } else {
                    let dev = (tout as f64 - ratio * tin as f64).abs();
                    acc.worst_margin = acc.worst_margin.max(dev / bound);
                    if dev > bound {
                        fail(acc, "drift-exceeds-bound", format!("after {} calls: |{} - {:?}*{}| = {:.3} > {:.3}", calls, tout, ratio, tin, dev, bound), &hist);
                        break;
                    }
                }
            }
            Res::Unit => {}
            other => {
                acc.outcomes.push(format!("{}:error", cfg.kind.name()));
                fail(acc, "stream-aborted", format!("{} -> {}", op.text(), other.text()), &hist);
                break;
            }
        }
    }
    Ok(())
}

impl Check for C07 {
    fn id(&self) -> &'static str {
        "C07"
    }
    fn level(&self) -> &'static str {
        "model_checking"
    }
    fn engine(&self) -> &'static str {
        "E1 lasso: the default-step orbit of every configuration is followed on the real object until its control fingerprint (x schedule phase) repeats; invariants on tail+cycle decide all stream lengths"
    }
    fn n_items(&self, tier: Tier) -> usize {
        c07_items(tier).len()
    }
    fn run_item(&self, tier: Tier, idx: usize, journal: Option<&JournalFile>) -> Result<Value, String> {
        let item = c07_items(tier).into_iter().nth(idx).ok_or("no item")?;
        let mut acc = C07Acc { states: 0, transitions: 0, closed: 0, caps: 0, found: vec![], outcomes: vec![], samples: vec![], worst_margin: 0.0 };
        let horizon = item.horizon.unwrap_or(if tier == Tier::Quick { 3000 } else { 20000 });
        let label = item.cfgs.first().map(|c| c.0.short()).unwrap_or_default();
        for (cfg, sched) in &item.cfgs {
            if cfg.kind.is_fft() && (fft_sizes(cfg).0 == 0) {
                continue;
            }
            c07_one(&mut acc, cfg, sched, horizon, journal)?;
        }
        acc.outcomes.sort();
        acc.outcomes.dedup();
        Ok(json!({
            "label": label, "states": acc.states, "transitions": acc.transitions,
            "closed": acc.closed, "horizon_caps": acc.caps,
            "outcomes": acc.outcomes, "found": acc.found, "samples": acc.samples,
            "extra": {"worst_margin": acc.worst_margin},
        }))
    }
    fn finalize(&self, _tier: Tier, items: &[Value], cov: &mut Map<String, Value>) {
        let w = items.iter().map(|v| v["extra"]["worst_margin"].as_f64().unwrap_or(0.0)).fold(0.0, f64::max);
        cov.insert("worst_drift_over_bound".into(), json!(w));
        cov.insert("lasso_note".into(), json!("orbits_closed = configurations (x schedules) decided for every stream length; horizon_caps_hit = configurations whose orbit does not repeat (non-terminating 1/ratio), checked to the horizon only"));
    }
    fn replay(&self, replay: &Value) -> Result<(bool, String), String> {
        crate::frame::replay_by_item(self, replay)
    }
    fn rule(&self, _tier: Tier) -> String {
        "per configuration (type x ratio x chunk x filter, sinc also with three periodic set_chunk_size schedules, one of them with sizes that are set and replaced before use; steps 1 -+ 2^-22 with 1-frame chunks, orbit of 2^22 calls; FFT: every rate pair up to 8 (12) x chunk x sub_chunks, all pairs up to 24 (64) with three requested sizes): follow P (or the schedule) on the real object until (control fingerprint, schedule phase) repeats; check |out - r*in| <= r*(L+1/r+3)+3 at every step and exact out*den == in*num over the cycle; FFT: 0 <= in*b - out*a < one block at every step, == 0 for FftFixedInOut, block-size formula".into()
    }
    fn assumptions(&self) -> Vec<String> {
        vec![
            "frame counts are independent of sample values (all-zero input is used)".into(),
            "equal control fingerprints have equal futures (hook completeness)".into(),
        ]
    }
    fn vacuity(&self, _tier: Tier) -> (u64, u64) {
        (500, 3)
    }
}
