//! C01 (passband fidelity) and C02 (stopband rejection): single tones through the real
//! resamplers over a configuration x tone lattice, least-squares sinusoid fit as oracle.

use crate::cfg::{window_name, Cfg, Interp, Kernel, Kind, WINDOWS};
use crate::e2::{fit_tone, rms};
use crate::frame::{Check, JournalFile, Tier};
use crate::kf::fft_sizes;
use crate::run::Flt;
use rubato::sinc_interpolator::{ScalarInterpolator, SincInterpolator};
use rubato::{calculate_cutoff, WindowFunction};
use serde_json::{json, Map, Value};
use std::f64::consts::PI;

/// far-stopband leakage in dB (C01) and stopband rejection in dB (C02) per window
pub fn leak_db(w: WindowFunction) -> f64 {
    match w {
        WindowFunction::Hann => 80.0,
        WindowFunction::Blackman => 92.0,
        WindowFunction::Hann2 => 105.0,
        WindowFunction::BlackmanHarris => 120.0,
        WindowFunction::Blackman2 => 125.0,
        WindowFunction::BlackmanHarris2 => 130.0,
    }
}

pub fn rej_db(w: WindowFunction) -> f64 {
    match w {
        WindowFunction::Hann => 41.0,
        WindowFunction::Hann2 => 58.0,
        WindowFunction::Blackman => 72.0,
        WindowFunction::Blackman2 => 99.0,
        WindowFunction::BlackmanHarris => 105.0,
        WindowFunction::BlackmanHarris2 => 138.0,
    }
}

fn amp_tol(w: WindowFunction) -> f64 {
    match w {
        WindowFunction::Hann | WindowFunction::Hann2 => 0.01,
        _ => 0.001,
    }
}

fn textbook(interp: Interp, os: usize, w_in: f64) -> f64 {
    let hw = w_in / os as f64;
    match interp {
        Interp::Nearest => hw / 2.0,
        Interp::Linear => hw * hw / 8.0,
        Interp::Quadratic => hw.powi(3) / (9.0 * 3f64.sqrt()),
        Interp::Cubic => 3.0 * hw.powi(4) / 128.0,
    }
}

pub const RATIOS: [f64; 9] = [1.0 / 16.0, 0.25, 0.7, 147.0 / 160.0, 1.0, 160.0 / 147.0, 2.5, 8.0, 16.0];

/// A resampler kept alive across tones (construction is the expensive part).
struct Unit<T: Flt> {
    cfg: Cfg,
    r: crate::any::Any<T>,
    /// the chunk size is changed while the stream runs: two calls at the constructor's size, two
    /// at 3/10 of it, and so on (sinc types only) - "for every way of chunking the stream"
    dance: bool,
    /// every call is handed input_frames_max() frames (when the signal has that many left): more
    /// than the call needs whenever the need varies from call to call
    generous: bool,
    /// the fitted window is the end of the output, not its beginning (chunks of tens of thousands
    /// of frames: the positions late in a chunk are the large ones)
    fit_late: bool,
}

struct ToneOut {
    amp: f64,
    phase: f64,
    resid_peak: f64,
    resid_rms: f64,
    out_rms: f64,
    n_fit: usize,
}

impl<T: Flt> Unit<T> {
    fn new(cfg: &Cfg) -> Result<Self, String> {
        Ok(Unit { cfg: cfg.clone(), r: cfg.build::<T>()?, dance: false, generous: false, fit_late: false })
    }

    /// Resample x (after reset) and return the output.
    fn run(&mut self, x: &[f64]) -> Result<Vec<f64>, String> {
        self.r.reset();
        let mut out = Vec::new();
        let mut pos = 0usize;
        let mut obuf: Vec<Vec<T>> = self.r.output_buffer_allocate(true);
        let nch = self.cfg.channels.max(1);
        let mut ibuf: Vec<Vec<T>> = vec![Vec::new(); nch];
        let mut calls = 0usize;
        loop {
            if self.dance && self.cfg.kind.is_sinc() {
                if calls % 4 == 2 {
                    self.r.set_chunk_size((self.cfg.chunk * 3 / 10).max(1)).map_err(|e| format!("set_chunk_size: {}", e))?;
                } else if calls % 4 == 0 && calls > 0 {
                    self.r.set_chunk_size(self.cfg.chunk).map_err(|e| format!("set_chunk_size: {}", e))?;
                }
            }
            calls += 1;
            let need = self.r.input_frames_next();
            if pos + need > x.len() {
                break;
            }
            let give = if self.generous { need.max(self.r.input_frames_max()).min(x.len() - pos) } else { need };
            ibuf[0].clear();
            ibuf[0].extend(x[pos..pos + give].iter().map(|v| T::from64(*v)));
            for (c, ch) in ibuf.iter_mut().enumerate().skip(1) {
                // the other channels carry a different in-band tone each (the fitted channel is 0)
                ch.clear();
                ch.extend((pos..pos + give).map(|n| T::from64(0.7 * (0.0371 * (c as f64 + 1.0) * n as f64 + c as f64).cos())));
            }
            let (i, o) = self.r.process_into_buffer(&ibuf, &mut obuf, None).map_err(|e| format!("{}", e))?;
            out.extend(obuf[0][..o].iter().map(|v| v.to64()));
            pos += i;
        }
        Ok(out)
    }

    /// Response to A*cos(pi*f*n + phi); f in input-Nyquist units.
    fn tone(&mut self, f: f64, a: f64, phi: f64, n_fit: usize) -> Result<ToneOut, String> {
        let r = self.cfg.nominal_ratio();
        let l = if self.cfg.kind.is_fft() { fft_sizes(&self.cfg).0.max(1) } else { self.cfg.filter_len() };
        let drop = (l as f64 * r.max(1.0)) as usize + 50 + if self.cfg.kind.is_fft() { 2 * fft_sizes(&self.cfg).1 } else { 0 };
        let total_out = n_fit + 2 * drop;
        let n_in = (total_out as f64 / r) as usize + 4 * l + 2 * self.cfg.chunk + 64;
        let w_in = PI * f;
        let x: Vec<f64> = (0..n_in).map(|n| a * (w_in * n as f64 + phi).cos()).collect();
        let y = self.run(&x)?;
        if y.len() < drop + 256 {
            return Err(format!("only {} output frames", y.len()));
        }
        let (n0, n1) = if self.fit_late {
            let n1 = y.len() - drop;
            (n1.saturating_sub(n_fit).max(drop), n1)
        } else {
            (drop, (y.len() - drop).min(drop + n_fit))
        };
        let (amp, phase, resid_rms, resid_peak) = fit_tone(&y, w_in / r, n0, n1);
        Ok(ToneOut { amp, phase, resid_peak, resid_rms, out_rms: rms(&y[n0..n1]), n_fit: n1 - n0 })
    }
}

fn wrap(x: f64) -> f64 {
    let mut y = x % (2.0 * PI);
    if y > PI {
        y -= 2.0 * PI;
    }
    if y <= -PI {
        y += 2.0 * PI;
    }
    y
}

struct Acc {
    evals: u64,
    nontrivial: u64,
    vacuous: u64,
    found: Vec<Value>,
    outcomes: std::collections::BTreeSet<String>,
    worst: std::collections::BTreeMap<String, f64>,
    near: Vec<Value>,
}

impl Acc {
    fn new() -> Acc {
        Acc { evals: 0, nontrivial: 0, vacuous: 0, found: vec![], outcomes: Default::default(), worst: Default::default(), near: vec![] }
    }
    fn margin(&mut self, key: &str, ratio_to_limit: f64, what: impl Fn() -> Value) {
        let e = self.worst.entry(key.to_string()).or_insert(0.0);
        if ratio_to_limit > *e {
            *e = ratio_to_limit;
        }
        if ratio_to_limit > 0.5 && ratio_to_limit <= 1.0 && self.near.len() < 4 {
            self.near.push(what());
        }
    }
    fn fail(&mut self, prop: &str, cfg: &Cfg, sig: &str, detail: String, point: String, extra: Value) {
        if self.found.iter().filter(|f| f["sig"] == sig).count() < 12 {
            self.found.push(json!({"prop": prop, "sig": sig, "detail": detail, "cfg": cfg.to_json(), "history": "", "point": point, "x": extra}));
        }
    }
}

// ------------------------------------------------------------------------------------------
// C01
// ------------------------------------------------------------------------------------------

pub struct C01;

#[derive(Clone, Debug)]
enum Item01 {
    Sinc { window: WindowFunction, l: usize, cc: bool, interp: Interp, os: usize },
    Fft { a: usize, b: usize },
}

fn items01(tier: Tier) -> Vec<Item01> {
    let q = tier == Tier::Quick;
    let mut v = Vec::new();
    // lengths that are odd multiples of 8 (72, 104, 504) exercise the remainder handling of the
    // SIMD kernels that the run-time dispatch selects; 200 is 8 mod 16 as well
    let ls: Vec<usize> = if q { vec![64, 72, 256] } else { vec![64, 72, 104, 128, 200, 256, 504, 512] };
    let variants: Vec<(Interp, usize)> = if q {
        // oversampling 6: with dyadic steps (ratio 8, 0.25) only some frames fall on the sub-filter grid
        vec![(Interp::Cubic, 256), (Interp::Cubic, 16), (Interp::Cubic, 6), (Interp::Quadratic, 64), (Interp::Linear, 2048), (Interp::Nearest, 1024)]
    } else {
        vec![
            (Interp::Cubic, 16),
            (Interp::Cubic, 256),
            (Interp::Quadratic, 64),
            (Interp::Quadratic, 512),
            (Interp::Linear, 512),
            (Interp::Linear, 2048),
            (Interp::Nearest, 1024),
            (Interp::Nearest, 2048),
            (Interp::Cubic, 2),
            (Interp::Cubic, 6),
            (Interp::Quadratic, 6),
            (Interp::Linear, 250),
        ]
    };
    for w in WINDOWS {
        for &l in &ls {
            for cc in [true, false] {
                for &(interp, os) in &variants {
                    v.push(Item01::Sinc { window: w, l, cc, interp, os });
                }
            }
        }
    }
    // a 32 768-fold sub-filter grid with chunks of tens of thousands of frames
    v.push(Item01::Sinc { window: WindowFunction::BlackmanHarris2, l: 64, cc: true, interp: Interp::Linear, os: 32768 });
    v.push(Item01::Sinc { window: WindowFunction::BlackmanHarris2, l: 64, cc: true, interp: Interp::Cubic, os: 32768 });
    for (a, b) in [(44100usize, 48000usize), (48000, 44100), (48000, 96000), (96000, 48000), (44100, 192000), (192000, 44100), (8000, 48000), (48000, 8000), (3, 2), (2, 3), (7, 5), (5, 7), (1, 1)] {
        v.push(Item01::Fft { a, b });
    }
    v
}

fn sinc_cfg(kind: Kind, ratio: f64, chunk: usize, l: usize, os: usize, interp: Interp, window: WindowFunction, f_cutoff: f32) -> Cfg {
    let mut c = Cfg::sinc(kind, ratio, 1.0, chunk, l, os, interp, Kernel::Dispatch);
    c.window = window;
    c.f_cutoff = f_cutoff;
    c
}

#[allow(clippy::too_many_arguments)]
fn c01_unit<T: Flt>(acc: &mut Acc, cfg: &Cfg, edge: f64, beta_of: &dyn Fn(f64) -> f64, amp_tol: f64, tones: &[f64], journal: Option<&JournalFile>, meta: Value) -> Result<(), String> {
    c01_unit_d::<T>(acc, cfg, edge, beta_of, amp_tol, tones, journal, meta, false)
}

#[allow(clippy::too_many_arguments)]
fn c01_unit_d<T: Flt>(acc: &mut Acc, cfg: &Cfg, edge: f64, beta_of: &dyn Fn(f64) -> f64, amp_tol: f64, tones: &[f64], journal: Option<&JournalFile>, meta: Value, dance: bool) -> Result<(), String> {
    let mut u = Unit::<T>::new(cfg)?;
    u.dance = dance;
    u.fit_late = cfg.chunk >= 50_000;
    u.generous = meta["generous_input"] == true;
    let a = 0.8;
    // "to single precision": measured f32 rounding noise peaks at 2^-19.5 of the amplitude (256 taps)
    let floor = if T::IS_F32 { 2f64.powi(-18) } else { 0.0 };
    let r = cfg.nominal_ratio();
    let mut delays: Vec<(f64, f64, f64)> = Vec::new(); // (f, delay in input samples, tolerance)
    for (ti, &frac) in tones.iter().enumerate() {
        let f = frac * edge;
        if !(f > 0.0 && f < 1.0) {
            acc.vacuous += 1;
            continue;
        }
        let phi = 0.4 + ti as f64;
        if let Some(j) = journal {
            j.write(&cfg.to_json(), &format!("tone {} of edge T={}", frac, T::NAME));
        }
        let t = u.tone(f, a, phi, 3000)?;
        acc.evals += 1;
        if t.n_fit > 500 {
            acc.nontrivial += 1;
        }
        let beta = beta_of(PI * f).max(floor);
        let point = format!("T={} tone at {}*passband edge (f={:.6} of input Nyquist){}{}", T::NAME, frac, f, if dance { ", chunk size changed every second call" } else { "" }, if u.generous { ", input_frames_max() frames handed to every call" } else { "" });
        let mut x = meta.clone();
        x["tone_frac"] = json!(frac);
        x["T"] = json!(T::NAME);
        // amplitude
        let adev = (t.amp / a - 1.0).abs();
        let alim = amp_tol + beta;
        acc.margin(&format!("amplitude:{}", T::NAME), adev / alim, || json!({"cfg": cfg.short(), "point": point, "amplitude_deviation": adev, "limit": alim}));
        if !(adev <= alim) {
            acc.fail("C01", cfg, "amplitude", format!("amplitude {:.6} of {:.1} (deviation {:.3e}, limit {:.3e})", t.amp, a, adev, alim), point.clone(), x.clone());
        }
        // spurious content
        let rlim = beta * a;
        acc.margin(&format!("residual:{}", T::NAME), t.resid_peak / rlim, || json!({"cfg": cfg.short(), "point": point, "residual_peak": t.resid_peak, "limit": rlim}));
        if let Some(rej) = meta["rej_db"].as_f64() {
            // whatever the far-stopband bound says, nothing may exceed the window's near
            // stopband figure (C02's number): a different signature, never a known finding
            let hard = 10f64.powf(-rej / 20.0).max(beta) * a;
            if !(t.resid_peak <= hard) {
                acc.fail("C01", cfg, "spurious-above-stopband-figure", format!("residual peak {:.3e} is {:.1} dB below the signal, not even the window's stopband figure of {} dB", t.resid_peak, -20.0 * (t.resid_peak / a).log10(), rej), point.clone(), x.clone());
            }
        }
        if !(t.resid_peak <= rlim) {
            acc.fail("C01", cfg, "spurious", format!("residual after removing the tone: peak {:.3e} ({:.1} dB below the signal), limit {:.3e} ({:.1} dB)", t.resid_peak, -20.0 * (t.resid_peak / a).log10(), rlim, -20.0 * beta.log10()), point.clone(), x.clone());
        }
        // delay (unwrapped with the help of the previous, lower tone)
        let w_in = PI * f;
        let expected = delays.last().map(|d| d.1).unwrap_or(u.r.output_delay() as f64 / r);
        let d = expected + wrap((phi - t.phase) - w_in * expected) / w_in;
        let tol = 1e-3 + 2.0 * (t.resid_peak / t.amp.max(1e-9)) / w_in + if T::IS_F32 { 2f64.powi(-18) / w_in } else { 0.0 };
        delays.push((f, d, tol));
        acc.outcomes.insert(format!("{}:{}:{}", cfg.kind.name(), T::NAME, if adev <= alim && t.resid_peak <= rlim { "ok" } else { "FAIL" }));
    }
    if delays.len() >= 2 {
        let d0 = delays[0].1;
        for (f, d, tol) in &delays[1..] {
            let lim = tol + delays[0].2;
            acc.margin(&format!("delay:{}", T::NAME), (d - d0).abs() / lim, || json!({"cfg": cfg.short(), "tone_f": f, "delay_difference": d - d0, "limit": lim}));
            if !((d - d0).abs() <= lim) {
                let mut x = meta.clone();
                x["T"] = json!(T::NAME);
                acc.fail("C01", cfg, "nonlinear-phase", format!("delay {:.5} input samples at f={:.4} but {:.5} at f={:.4} (limit {:.2e})", d, f, d0, delays[0].0, lim), format!("T={} tones", T::NAME), x);
            }
        }
    }
    // superposition on one mix
    if !T::IS_F32 && delays.len() >= 2 {
        let (f1, f2) = (delays[0].0, delays[delays.len() - 1].0);
        let n_in = (3000.0 / r) as usize + 6 * cfg.filter_len().max(64) + 2 * cfg.chunk;
        let x1: Vec<f64> = (0..n_in).map(|n| 0.4 * (PI * f1 * n as f64).cos()).collect();
        let x2: Vec<f64> = (0..n_in).map(|n| 0.3 * (PI * f2 * n as f64 + 1.0).cos()).collect();
        let xs: Vec<f64> = x1.iter().zip(x2.iter()).map(|(p, q)| p + q).collect();
        let (y1, y2, ys) = (u.run(&x1)?, u.run(&x2)?, u.run(&xs)?);
        acc.evals += 1;
        let worst = ys.iter().zip(y1.iter().zip(y2.iter())).map(|(s, (p, q))| (s - p - q).abs()).fold(0.0, f64::max);
        if !(worst <= 1e-12) {
            acc.fail("C01", cfg, "not-linear", format!("response to a two-tone mix differs from the sum of the responses by {:e}", worst), "two-tone mix".into(), meta.clone());
        }
    }
    Ok(())
}

impl Check for C01 {
    fn id(&self) -> &'static str {
        "C01"
    }
    fn level(&self) -> &'static str {
        "exploration"
    }
    fn engine(&self) -> &'static str {
        "E2 exhaustive lattice: single tones x configurations through the real resamplers, least-squares sinusoid fit"
    }
    fn n_items(&self, tier: Tier) -> usize {
        items01(tier).len()
    }
    fn run_item(&self, tier: Tier, idx: usize, journal: Option<&JournalFile>) -> Result<Value, String> {
        let item = items01(tier).into_iter().nth(idx).ok_or("no item")?;
        let q = tier == Tier::Quick;
        let mut acc = Acc::new();
        let tones: Vec<f64> = if q { vec![0.05, 0.6, 0.999] } else { vec![0.05, 0.3, 0.6, 0.9, 0.999] };
        let label;
        match item {
            Item01::Sinc { window, l, cc, interp, os } => {
                label = format!("sinc {} L{} {} {} os{}", window_name(window), l, if cc { "f_cutoff=calculate_cutoff" } else { "f_cutoff=0.8" }, interp.name(), os);
                let ccv = calculate_cutoff::<f32>(l, window);
                let f_cutoff = if cc { ccv } else { 0.8 };
                let tw = 1.0 - ccv as f64;
                let ratios: Vec<f64> = if q { vec![0.25, 160.0 / 147.0, 8.0] } else { RATIOS.to_vec() };
                for &ratio in &ratios {
                    let edge = f_cutoff as f64 * ratio.min(1.0) - tw;
                    if edge <= 0.01 {
                        acc.vacuous += 1;
                        continue;
                    }
                    let leak = 10f64.powf(-leak_db(window) / 20.0);
                    let beta = move |w_in: f64| leak.max(2.0 * textbook(interp, os, w_in));
                    let meta = json!({"family": "sinc", "window": window_name(window), "sinc_len": l, "cc": cc, "ratio": ratio, "rej_db": rej_db(window)});
                    let mut variants = vec![(Kind::SI, 500usize, 1.0), (Kind::SO, 512, 2.0)];
                    if !q {
                        variants.push((Kind::SI, 37, 1.5));
                    }
                    if os >= 32768 {
                        // chunks of 70 000 / 80 000 frames on a 32 768-fold grid: positions late in
                        // a chunk exceed 2^31 sub-filter steps (fitted at the end of the output)
                        variants = vec![(Kind::SI, 70_000, 1.0), (Kind::SO, 80_000, 1.0)];
                    }
                    for (kind, chunk, max_rel) in variants {
                        let mut cfg = sinc_cfg(kind, ratio, chunk, l, os, interp, window, f_cutoff);
                        cfg.max_rel = max_rel;
                        c01_unit::<f64>(&mut acc, &cfg, edge, &beta, amp_tol(window), &tones, journal, meta.clone())?;
                        if !(q && kind == Kind::SO) && os < 32768 {
                            c01_unit::<f32>(&mut acc, &cfg, edge, &beta, amp_tol(window), &tones, journal, meta.clone())?;
                        }
                    }
                    if os >= 32768 {
                        continue;
                    }
                    // two channels carrying different signals (channel 0 is fitted): whatever the
                    // channels share inside one call shows as the other channel's tone
                    if os <= 16 {
                        for kind in [Kind::SI, Kind::SO] {
                            let mut cfg = sinc_cfg(kind, ratio, 256, l, os, interp, window, f_cutoff).with_channels(2);
                            cfg.max_rel = 1.0;
                            let mut m = meta.clone();
                            m["two_channels"] = json!(true);
                            c01_unit::<f64>(&mut acc, &cfg, edge, &beta, amp_tol(window), &tones[tones.len() - 2..], journal, m)?;
                        }
                    }
                    // the same stream cut into chunks whose size changes while it runs (a
                    // constructor size above twice the filter length, shrunk and restored)
                    for kind in [Kind::SI, Kind::SO] {
                        let mut cfg = sinc_cfg(kind, ratio, 1100, l, os, interp, window, f_cutoff);
                        cfg.max_rel = 1.0;
                        let mut m = meta.clone();
                        m["chunk_dance"] = json!(true);
                        m["generous_input"] = json!(true);
                        c01_unit_d::<f64>(&mut acc, &cfg, edge, &beta, amp_tol(window), &tones[tones.len() - 2..], journal, m, true)?;
                    }
                }
            }
            Item01::Fft { a, b } => {
                label = format!("fft {}->{}", a, b);
                let chunks: Vec<usize> = if q { vec![256, 1024] } else { vec![64, 256, 1024, 2048] };
                for chunk in chunks {
                    for kind in [Kind::XI, Kind::XO, Kind::XX] {
                        let cfg = Cfg::fft(kind, a, b, chunk, if kind == Kind::XX { 1 } else { 2 });
                        let (fi, fo) = fft_sizes(&cfg);
                        if fi.min(fo) < 32 {
                            acc.vacuous += 1;
                            continue;
                        }
                        let r = cfg.nominal_ratio();
                        let w = WindowFunction::BlackmanHarris2;
                        let cutoff = if fi > fo { calculate_cutoff::<f32>(fo, w) as f64 * r } else { calculate_cutoff::<f32>(fi, w) as f64 };
                        let edge = cutoff - (1.0 - calculate_cutoff::<f32>(fi, w) as f64);
                        if edge <= 0.01 {
                            acc.vacuous += 1;
                            continue;
                        }
                        let beta = |_w: f64| 10f64.powf(-150.0 / 20.0);
                        let meta = json!({"family": "fft", "fft_in": fi, "fft_out": fo});
                        c01_unit::<f64>(&mut acc, &cfg, edge, &beta, 0.001, &tones, journal, meta.clone())?;
                        c01_unit::<f32>(&mut acc, &cfg, edge, &beta, 0.001, &tones, journal, meta.clone())?;
                        // the same stream with input_frames_max() frames handed to every call
                        // (longer than needed whenever the need varies: documented as allowed)
                        let mut m = meta.clone();
                        m["generous_input"] = json!(true);
                        c01_unit::<f64>(&mut acc, &cfg, edge, &beta, 0.001, &tones[tones.len() - 1..], journal, m)?;
                    }
                }
            }
        }
        Ok(json!({
            "label": label, "evaluations": acc.evals, "nontrivial": acc.nontrivial,
            "outcomes": acc.outcomes.iter().collect::<Vec<_>>(), "found": acc.found,
            "samples": [{"item": label, "tones": tones, "oracle": "LS fit of A*cos(w k + psi) on 3000 output frames after dropping L*max(1,ratio)+50 frames at both ends"}],
            "extra": {"worst": acc.worst, "near": acc.near, "vacuous": acc.vacuous},
        }))
    }
    fn finalize(&self, _tier: Tier, items: &[Value], cov: &mut Map<String, Value>) {
        finalize_margins(items, cov);
    }
    fn replay(&self, replay: &Value) -> Result<(bool, String), String> {
        crate::frame::replay_by_item(self, replay)
    }
    fn rule(&self, _tier: Tier) -> String {
        "full product of window(6) x sinc_len x f_cutoff {calculate_cutoff, 0.8} x (interpolation, oversampling) pairs x ratio x tone position (fractions of the passband edge f_cutoff*min(1,r) - (1-calculate_cutoff)) x {FixedIn 500, FixedOut 512, FixedIn 37} x {f64, f32}; FFT: rate pairs x requested chunk x {FixedIn, FixedOut, FixedInOut} x tones x T. Oracles with the property's numbers: amplitude within 1% / 0.1% + beta, residual peak <= beta*A with beta = max(window leakage, 2*textbook interpolation bound), one delay for all tones of a configuration, superposition. Non-trivial = more than 500 frames fitted".into()
    }
    fn assumptions(&self) -> Vec<String> {
        vec![
            "tone frequencies, ratios and amplitudes between lattice points are not covered (linearity gives mixes of covered tones only)".into(),
            "f32 bounds are floored at 2^-18 of the amplitude (about 3x the largest f32 rounding noise measured on the unchanged tree)".into(),
        ]
    }
    fn vacuity(&self, _tier: Tier) -> (u64, u64) {
        (200, 3)
    }
}

fn finalize_margins(items: &[Value], cov: &mut Map<String, Value>) {
    let mut worst: std::collections::BTreeMap<String, f64> = Default::default();
    let mut near: Vec<Value> = Vec::new();
    let mut vac = 0u64;
    for v in items {
        if let Some(m) = v["extra"]["worst"].as_object() {
            for (k, x) in m {
                let e = worst.entry(k.clone()).or_insert(0.0);
                *e = e.max(x.as_f64().unwrap_or(0.0));
            }
        }
        if let Some(a) = v["extra"]["near"].as_array() {
            for n in a {
                if near.len() < 6 {
                    near.push(n.clone());
                }
            }
        }
        vac += v["extra"]["vacuous"].as_u64().unwrap_or(0);
    }
    cov.insert("worst_value_over_limit_per_oracle".into(), json!(worst));
    cov.insert("points_closest_to_the_limit".into(), json!(near));
    cov.insert("vacuous_points_skipped".into(), json!(vac));
}

fn replay_by_label(check: &dyn Check, replay: &Value, n: usize, id: &str) -> Result<(bool, String), String> {
    // re-run the recorded work item and look for the same (configuration, signature)
    let tier = Tier::parse(replay["tier"].as_str().unwrap_or("thorough")).unwrap_or(Tier::Thorough);
    let idx = replay["item"].as_u64().ok_or("replay file has no item index")? as usize;
    if idx >= n.max(check.n_items(tier)) {
        return Err("item index out of range".into());
    }
    let want = replay["cfg"].clone();
    let mut log = String::new();
    let mut bad = false;
    let v = check.run_item(tier, idx, None)?;
    for f in v["found"].as_array().cloned().unwrap_or_default() {
        if f["cfg"] == want && f["sig"] == replay["signature"] {
            bad = true;
            log.push_str(&format!("    VIOLATES {} [{}] {} | {}\n", id, f["sig"].as_str().unwrap_or(""), f["point"].as_str().unwrap_or(""), f["detail"].as_str().unwrap_or("")));
        }
    }
    Ok((bad, log))
}

// ------------------------------------------------------------------------------------------
// C02
// ------------------------------------------------------------------------------------------

pub struct C02;

#[derive(Clone, Debug)]
enum Item02 {
    /// calculate_cutoff over a block of lengths
    Cutoff { window: WindowFunction, lo: usize, hi: usize, step: usize },
    Sinc { window: WindowFunction, l: usize, cc: bool, os: usize },
    /// a user-chosen cutoff far below calculate_cutoff
    SincCut { window: WindowFunction, l: usize, os: usize, fc: f32 },
    Fft { a: usize, b: usize },
}

fn items02(tier: Tier) -> Vec<Item02> {
    let q = tier == Tier::Quick;
    let mut v = Vec::new();
    for w in WINDOWS {
        if q {
            v.push(Item02::Cutoff { window: w, lo: 32, hi: 2048, step: 48 });
        } else {
            let mut lo = 32;
            while lo <= 2048 {
                let hi = (lo + 63).min(2048);
                v.push(Item02::Cutoff { window: w, lo, hi, step: 1 });
                lo = hi + 1;
            }
        }
        // lengths beyond the fitted range (the FFT resamplers use their block length here)
        if matches!(w, WindowFunction::BlackmanHarris2) || !q {
            v.push(Item02::Cutoff { window: w, lo: 4096, hi: 16384, step: 12288 });
        }
        // 71, 100, 509: not multiples of 8, the constructors round the filter length up
        for l in if q { vec![64usize, 71, 256] } else { vec![64usize, 71, 100, 128, 256, 509, 512] } {
            for cc in [true, false] {
                v.push(Item02::Sinc { window: w, l, cc, os: 256 });
            }
        }
        // tables of a million points and more
        v.push(Item02::Sinc { window: w, l: 512, cc: true, os: 2048 });
        // an oversampling factor that is not a power of two (the documented example value)
        if matches!(w, WindowFunction::BlackmanHarris2 | WindowFunction::Blackman) || !q {
            v.push(Item02::Sinc { window: w, l: 128, cc: true, os: 160 });
        }
        // cutoffs so low that the main lobe of the sinc is wider than the window
        if matches!(w, WindowFunction::BlackmanHarris2 | WindowFunction::Hann) || !q {
            v.push(Item02::SincCut { window: w, l: 64, os: 256, fc: 0.05 });
            v.push(Item02::SincCut { window: w, l: 128, os: 256, fc: 0.3 });
        }
        if matches!(w, WindowFunction::BlackmanHarris2) {
            v.push(Item02::Sinc { window: w, l: 64, cc: true, os: 32768 });
        }
        if !q {
            v.push(Item02::Sinc { window: w, l: 256, cc: true, os: 4096 });
        }
    }
    for (a, b) in [(44100usize, 48000usize), (48000, 44100), (48000, 96000), (96000, 48000), (44100, 192000), (192000, 44100), (8000, 48000), (48000, 8000), (3, 2), (2, 3), (7, 5), (5, 7)] {
        v.push(Item02::Fft { a, b });
    }
    v
}

/// The frequency response of the table of a sinc interpolator with `os` branches, read through
/// the public kernel with unit impulses. Returns (|H(f)|/|H(0)| on the grid, grid step) for f in
/// [0, os] (input-Nyquist units).
fn table_taps<T: Flt>(l: usize, os: usize, f_cutoff: f32, window: WindowFunction) -> Vec<f64> {
    let k = ScalarInterpolator::<T>::new(l, os, f_cutoff, window);
    let mut y = vec![0.0f64; l * os];
    let mut wave: Vec<T> = vec![T::from64(0.0); l + 2];
    for p in 0..l {
        wave[p] = T::from64(1.0);
        for sub in 0..os {
            // sincs[factor-n-1][p] = y[factor*p+n]
            y[os * p + (os - 1 - sub)] = k.get_sinc_interpolated(&wave, 0, sub).to64();
        }
        wave[p] = T::from64(0.0);
    }
    y
}

/// |H(f)| of a tap vector with sample spacing 1/os, f in input-Nyquist units.
fn dtft_at(y: &[f64], os: usize, f: f64) -> f64 {
    let w = PI * f / os as f64;
    let (mut re, mut im) = (0.0, 0.0);
    for (n, v) in y.iter().enumerate() {
        let (s, c) = (w * n as f64).sin_cos();
        re += v * c;
        im -= v * s;
    }
    (re * re + im * im).sqrt()
}

fn table_response<T: Flt>(l: usize, os: usize, f_cutoff: f32, window: WindowFunction, grid: usize) -> Vec<f64> {
    let y = table_taps::<T>(l, os, f_cutoff, window);
    // DTFT at f_j = j*os/grid (Nyquist units of the input rate); sample spacing 1/os
    let h: Vec<f64> = (0..=grid).map(|j| dtft_at(&y, os, j as f64 * os as f64 / grid as f64)).collect();
    let h0 = h[0];
    h.iter().map(|x| x / h0).collect()
}

fn c02_cutoff<T: Flt>(acc: &mut Acc, window: WindowFunction, l: usize) {
    let os = 4usize;
    let grid = 1024usize; // step = os/grid = 1/256 of Nyquist
    let cc = calculate_cutoff::<f32>(l, window);
    let ccx = calculate_cutoff::<T>(l, window).to64();
    let l8 = 8 * ((l + 7) / 8);
    let h = table_response::<T>(l8, os, cc, window, grid);
    acc.evals += 1;
    acc.nontrivial += 1;
    let step = os as f64 / grid as f64;
    let cfg = sinc_cfg(Kind::SI, 1.0, 64, l, os, Interp::Cubic, window, cc);
    let meta = json!({"family": "cutoff", "window": window_name(window), "sinc_len": l, "T": T::NAME});
    let point = format!("calculate_cutoff({}, {}) = {:.6} T={}", l, window_name(window), cc, T::NAME);
    if (ccx - cc as f64).abs() > 1e-6 {
        acc.fail("C02", &cfg, "calculate_cutoff-type-dependent", format!("calculate_cutoff::<{}> = {} but ::<f32> = {}", T::NAME, ccx, cc), point.clone(), meta.clone());
    }
    // -6 dB point within one grid step (plus the f32 representation of the cutoff) of f_cutoff
    let half = 0.5;
    let mut f6 = -1.0;
    for j in 0..grid {
        if h[j] >= half && h[j + 1] < half {
            let t = (h[j] - half) / (h[j] - h[j + 1]);
            f6 = (j as f64 + t) * step;
            break;
        }
    }
    let dev = (f6 - cc as f64).abs();
    acc.margin("cutoff:-6dB-point", dev / (step + 1e-4), || json!({"point": point, "minus_6_dB_at": f6, "f_cutoff": cc}));
    if !(dev <= step + 1e-4) {
        acc.fail("C02", &cfg, "minus6dB-not-at-f_cutoff", format!("-6 dB point at {:.5}, f_cutoff {:.5} (grid step {:.5})", f6, cc, step), point.clone(), meta.clone());
    }
    // stopband starts at Nyquist: everything from f = 1 upwards below the rejection figure
    // the rejection figures are stated for f64; an f32 table is held to single precision
    let lim = 10f64.powf(-rej_db(window) / 20.0).max(if T::IS_F32 { 2f64.powi(-18) } else { 0.0 });
    let j1 = (1.0 / step).ceil() as usize;
    let (mut worst, mut at) = (0.0, 0usize);
    for (j, v) in h.iter().enumerate().skip(j1) {
        if *v > worst {
            worst = *v;
            at = j;
        }
    }
    acc.margin(&format!("cutoff:stopband:{}", window_name(window)), worst / lim, || json!({"point": point, "worst_stopband_dB": -20.0 * worst.log10(), "required_dB": rej_db(window), "at_f": at as f64 * step}));
    // ... and not earlier: half a transition half-width below Nyquist the response is still above
    // the rejection figure (a cutoff that is needlessly low gives away passband)
    if !T::IS_F32 {
        let y = table_taps::<T>(l8, os, cc, window);
        let tw = 1.0 - cc as f64;
        let early = dtft_at(&y, os, 1.0 - 0.5 * tw) / dtft_at(&y, os, 0.0);
        acc.margin(&format!("cutoff:stopband-not-early:{}", window_name(window)), lim / early, || json!({"point": point, "response_dB_half_a_transition_half_width_below_nyquist": 20.0 * early.log10(), "rejection_dB": -rej_db(window)}));
        if !(early > lim) {
            acc.fail("C02", &cfg, "stopband-starts-before-nyquist", format!("filter response at f = {:.5} (half a transition half-width below Nyquist) is already {:.1} dB: with f_cutoff = calculate_cutoff the stopband starts at Nyquist", 1.0 - 0.5 * tw, 20.0 * early.log10()), point.clone(), meta.clone());
        }
    }
    acc.outcomes.insert(format!("cutoff:{}:{}", window_name(window), if worst <= lim { "ok" } else { "LEAK" }));
    if !(worst <= lim) {
        acc.fail("C02", &cfg, "stopband-starts-after-nyquist", format!("filter response at f = {:.4} (>= Nyquist) is {:.1} dB, required <= -{} dB", at as f64 * step, 20.0 * worst.log10(), rej_db(window)), point, meta);
    }
}

fn c02_sinc(acc: &mut Acc, tier: Tier, window: WindowFunction, l: usize, cc: bool, os: usize, fc: Option<f32>, journal: Option<&JournalFile>) -> Result<(), String> {
    let q = tier == Tier::Quick;
    let ccv = calculate_cutoff::<f32>(l, window);
    let f_cutoff = fc.unwrap_or(if cc { ccv } else { 0.8 });
    let ratios: Vec<f64> = if q { vec![0.25, 147.0 / 160.0, 2.5] } else { vec![0.25, 0.7, 147.0 / 160.0, 1.0, 160.0 / 147.0, 2.5, 8.0] };
    // a 32 768-fold sub-filter grid with chunks of 70 000 / 80 000 frames: positions late in a
    // chunk exceed 2^31 sub-filter steps (the fitted window lies at the end of the output)
    let huge_grid = os >= 32768;
    let ratios: Vec<f64> = if huge_grid { vec![0.7, 2.5] } else { ratios };
    for &ratio in &ratios {
        for (kind, max_rel) in [(Kind::SI, 1.0), (Kind::SO, 1.0), (Kind::SI, 2.0), (Kind::SO, 1.1)] {
            // the filter must not depend on the adjustable range
            let (chunk, interp) = if huge_grid { (if kind == Kind::SI { 70_000 } else { 80_000 }, Interp::Linear) } else { (if kind == Kind::SI { 500 } else { 512 }, Interp::Cubic) };
            let mut cfg = sinc_cfg(kind, ratio, chunk, l, os, interp, window, f_cutoff);
            cfg.max_rel = max_rel;
            if os > 256 && max_rel != 1.0 {
                continue;
            }
            c02_sinc_unit::<f64>(acc, &cfg, window, l, cc, ratio, journal)?;
            if huge_grid {
                continue;
            }
            // single precision runs through the kernel the dispatch selects for f32; the rejection
            // figures are stated for f64, an f32 stream is held to single precision (2^-18)
            if max_rel == 1.0 {
                c02_sinc_unit::<f32>(acc, &cfg, window, l, cc, ratio, journal)?;
            }
        }
    }
    Ok(())
}

fn c02_sinc_unit<T: Flt>(acc: &mut Acc, cfg: &Cfg, window: WindowFunction, l: usize, cc: bool, ratio: f64, journal: Option<&JournalFile>) -> Result<(), String> {
    let ccv = calculate_cutoff::<f32>(l, window);
    let f_cutoff = cfg.f_cutoff;
    let tw = 1.0 - ccv as f64;
    let floor = if T::IS_F32 { (2.0f64).powi(-18) } else { 0.0 };
    let lim = (10f64.powf(-rej_db(window) / 20.0)).max(floor);
    let req_db = -20.0 * lim.log10();
    let a = 0.8;
    let mut u = Unit::<T>::new(cfg)?;
    u.fit_late = cfg.chunk >= 50_000;
    let stop = f_cutoff as f64 * ratio.min(1.0) + tw;
    let meta = json!({"family": "sinc", "window": window_name(window), "sinc_len": l, "cc": cc, "ratio": ratio, "T": T::NAME});
    let tag = if T::IS_F32 { ":f32" } else { "" };
    // (1) input content beyond the stop edge (exists only below the input Nyquist)
    if stop < 0.99 {
        for frac in [0.003, 0.1, 0.3, 0.7, 0.93] {
            let f = stop + frac * (1.0 - stop);
            if let Some(j) = journal {
                j.write(&cfg.to_json(), &format!("stopband tone f={} T={}", f, T::NAME));
            }
            let t = u.tone(f, a, 0.7, 3000)?;
            acc.evals += 1;
            acc.nontrivial += 1;
            let level = 2f64.sqrt() * t.out_rms / a;
            let point = format!("T={} stopband tone at stop edge + {}*(1 - stop edge): f={:.5}, stop edge {:.5}", T::NAME, frac, f, stop);
            acc.margin(&format!("stopband:{}{}", window_name(window), tag), level / lim, || json!({"cfg": cfg.short(), "point": point, "level_dB": 20.0 * level.log10(), "required_dB": -req_db}));
            acc.outcomes.insert(format!("{}:{}:stop{}:{}", cfg.kind.name(), window_name(window), tag, if level <= lim { "ok" } else { "LEAK" }));
            if !(level <= lim) {
                let mut m = meta.clone();
                m["f_cutoff"] = json!(f_cutoff);
                m["excess_dB"] = json!(20.0 * (level / lim).log10());
                acc.fail("C02", cfg, "aliasing", format!("a tone above the stopband edge comes out at {:.1} dB, required <= -{:.0} dB", 20.0 * level.log10(), req_db), point, m);
            }
        }
    } else {
        acc.vacuous += 1;
    }
    // (2) upsampling: images of a passband tone (all beyond the stop edge when f_cutoff <= calculate_cutoff)
    if ratio > 1.0 && f_cutoff <= ccv {
        let edge = f_cutoff as f64 - tw;
        for frac in [0.3, 0.6, 0.9] {
            let f = frac * edge;
            let t = u.tone(f, a, 0.2, 3000)?;
            acc.evals += 1;
            acc.nontrivial += 1;
            let level = t.resid_peak / a;
            let point = format!("T={} images of a passband tone at {}*edge (f={:.5})", T::NAME, frac, f);
            acc.margin(&format!("images:{}{}", window_name(window), tag), level / lim, || json!({"cfg": cfg.short(), "point": point, "level_dB": 20.0 * level.log10(), "required_dB": -req_db}));
            acc.outcomes.insert(format!("{}:{}:image{}:{}", cfg.kind.name(), window_name(window), tag, if level <= lim { "ok" } else { "LEAK" }));
            if !(level <= lim) {
                acc.fail("C02", cfg, "imaging", format!("everything but the tone itself is at {:.1} dB, required <= -{:.0} dB", 20.0 * level.log10(), req_db), point, meta.clone());
            }
        }
    }
    Ok(())
}

fn c02_fft(acc: &mut Acc, tier: Tier, a_rate: usize, b_rate: usize, journal: Option<&JournalFile>) -> Result<(), String> {
    let chunks: Vec<usize> = if tier == Tier::Quick { vec![64, 256, 1024] } else { vec![16, 64, 256, 1024, 2048] };
    let lim = 1e-5; // -100 dB
    let a = 0.8;
    for chunk in chunks {
        for kind in [Kind::XI, Kind::XO, Kind::XX] {
            let cfg = Cfg::fft(kind, a_rate, b_rate, chunk, if kind == Kind::XX { 1 } else { 2 });
            let (fi, fo) = fft_sizes(&cfg);
            let meta = json!({"family": "fft", "fft_in": fi, "fft_out": fo});
            if fi.min(fo) < 4 {
                acc.vacuous += 1;
                continue;
            }
            let r = cfg.nominal_ratio();
            let mut u = Unit::<f64>::new(&cfg)?;
            if let Some(j) = journal {
                j.write(&cfg.to_json(), "fft stopband");
            }
            if r < 1.0 {
                // content above the output Nyquist (= r in input units) must vanish
                for frac in [0.003, 0.1, 0.5, 0.93] {
                    let f = r + frac * (1.0 - r);
                    let t = u.tone(f, a, 0.7, 3000)?;
                    acc.evals += 1;
                    acc.nontrivial += 1;
                    let level = 2f64.sqrt() * t.out_rms / a;
                    let point = format!("tone above the output Nyquist: f={:.5} (output Nyquist {:.5})", f, r);
                    acc.margin("fft:stopband", level / lim, || json!({"cfg": cfg.short(), "point": point, "level_dB": 20.0 * level.log10()}));
                    acc.outcomes.insert(format!("{}:stop:{}", cfg.kind.name(), if level <= lim { "ok" } else { "LEAK" }));
                    if !(level <= lim) {
                        acc.fail("C02", &cfg, "fft-aliasing", format!("a tone above the output Nyquist comes out at {:.1} dB, required < -100 dB", 20.0 * level.log10()), point, meta.clone());
                    }
                }
            } else if r > 1.0 {
                let w = WindowFunction::BlackmanHarris2;
                let edge = calculate_cutoff::<f32>(fi, w) as f64 - (1.0 - calculate_cutoff::<f32>(fi, w) as f64);
                for frac in [0.3, 0.9] {
                    let f = frac * edge;
                    let t = u.tone(f, a, 0.2, 3000)?;
                    acc.evals += 1;
                    acc.nontrivial += 1;
                    let level = t.resid_peak / a;
                    let point = format!("images of a passband tone at {}*edge (f={:.5})", frac, f);
                    acc.margin("fft:images", level / lim, || json!({"cfg": cfg.short(), "point": point, "level_dB": 20.0 * level.log10()}));
                    acc.outcomes.insert(format!("{}:image:{}", cfg.kind.name(), if level <= lim { "ok" } else { "LEAK" }));
                    if !(level <= lim) {
                        acc.fail("C02", &cfg, "fft-imaging", format!("everything but the tone itself is at {:.1} dB, required < -100 dB", 20.0 * level.log10()), point, meta.clone());
                    }
                }
            }
        }
    }
    Ok(())
}

impl Check for C02 {
    fn id(&self) -> &'static str {
        "C02"
    }
    fn level(&self) -> &'static str {
        "exploration"
    }
    fn engine(&self) -> &'static str {
        "E2 exhaustive lattice: filter tables read through the public kernel, and stopband tones through the real resamplers"
    }
    fn n_items(&self, tier: Tier) -> usize {
        items02(tier).len()
    }
    fn run_item(&self, tier: Tier, idx: usize, journal: Option<&JournalFile>) -> Result<Value, String> {
        let item = items02(tier).into_iter().nth(idx).ok_or("no item")?;
        let mut acc = Acc::new();
        let label;
        match item {
            Item02::Cutoff { window, lo, hi, step } => {
                label = format!("calculate_cutoff {} npoints {}..{} step {}", window_name(window), lo, hi, step);
                let mut l = lo;
                while l <= hi {
                    c02_cutoff::<f64>(&mut acc, window, l);
                    // single precision: the sinc arguments of a table beyond 2048 points lose
                    // more than the 2^-18 the f32 figures are held to
                    if l <= 2048 {
                        c02_cutoff::<f32>(&mut acc, window, l);
                    }
                    l += step;
                }
            }
            Item02::Sinc { window, l, cc, os } => {
                label = format!("sinc stopband {} L{} os{} {}", window_name(window), l, os, if cc { "f_cutoff=calculate_cutoff" } else { "f_cutoff=0.8" });
                c02_sinc(&mut acc, tier, window, l, cc, os, None, journal)?;
            }
            Item02::SincCut { window, l, os, fc } => {
                label = format!("sinc stopband {} L{} os{} f_cutoff={}", window_name(window), l, os, fc);
                c02_sinc(&mut acc, tier, window, l, false, os, Some(fc), journal)?;
            }
            Item02::Fft { a, b } => {
                label = format!("fft stopband {}->{}", a, b);
                c02_fft(&mut acc, tier, a, b, journal)?;
            }
        }
        Ok(json!({
            "label": label, "evaluations": acc.evals, "nontrivial": acc.nontrivial,
            "outcomes": acc.outcomes.iter().collect::<Vec<_>>(), "found": acc.found,
            "samples": [{"item": label}],
            "extra": {"worst": acc.worst, "near": acc.near, "vacuous": acc.vacuous},
        }))
    }
    fn finalize(&self, _tier: Tier, items: &[Value], cov: &mut Map<String, Value>) {
        finalize_margins(items, cov);
    }
    fn replay(&self, replay: &Value) -> Result<(bool, String), String> {
        crate::frame::replay_by_item(self, replay)
    }
    fn rule(&self, _tier: Tier) -> String {
        "(a) calculate_cutoff: every npoints in [32,2048] (quick: every 48th) x 6 windows x {f32,f64}: the 4x oversampled table of the real ScalarInterpolator built with f_cutoff = calculate_cutoff, read with unit impulses, DTFT on a 1/256-Nyquist grid: -6 dB point at f_cutoff, everything from the Nyquist frequency upwards below the window's rejection figure; (b) sinc end to end: window x sinc_len x f_cutoff {calculate_cutoff, 0.8} x ratio x {FixedIn, FixedOut} x 5 tones between the stopband edge and the input Nyquist (sqrt(2)*RMS of the output <= rejection figure) and, when upsampling, 3 passband tones whose residual after removing the fitted tone is held to the same figure; (c) FFT: rate pairs x requested chunk x 3 types, tones above the lower Nyquist / images below -100 dB. Non-trivial = every evaluated tone (configurations without any stopband tone below the input Nyquist are counted as vacuous)".into()
    }
    fn assumptions(&self) -> Vec<String> {
        vec![
            "frequencies between lattice points are not covered; the tone grid avoids exact DC/Nyquist aliases where an RMS estimate degenerates".into(),
            "FFT blocks shorter than 32 points are outside the lattice (see known findings)".into(),
        ]
    }
    fn vacuity(&self, _tier: Tier) -> (u64, u64) {
        (100, 3)
    }
}
