//! C08: the polynomial resamplers reproduce polynomials up to their degree exactly, at
//! uniformly spaced instants; sinusoids within the classical interpolation bound.

use crate::cfg::{Cfg, Degree, Kind};
use crate::e2::{resample_all_x, Opts};
use crate::frame::{Check, JournalFile, Tier};
use crate::run::Flt;
use serde_json::{json, Map, Value};

pub struct C08;

const RATIOS: [f64; 10] = [1.0 / 16.0, 0.1, 0.37, 0.5, 147.0 / 160.0, 1.0, 1.7, 2.5, 4.1, 16.0];
const CHUNKS: [usize; 5] = [1, 2, 5, 32, 257];

#[derive(Clone, Debug)]
struct Item {
    degree: Degree,
    /// ratio in force while the stream runs
    ratio: f64,
    kind: Kind,
    /// (construction ratio, max relative ratio, relative ratio set without ramp on the fresh
    /// resampler): the stream runs at a ratio that is not the construction ratio
    pre: Option<(f64, f64, f64)>,
    /// the relative ratio is set with ramp = true: the first chunk is the ramp, the stream runs
    /// at the new ratio from the second chunk on (frames of the first call are not compared)
    ramp: bool,
    /// a second relative ratio, set (no ramp) after two processing calls; `ratio` is then
    /// construction ratio x this factor, and frames of the first two calls are not compared
    pre2: Option<f64>,
    /// two channels, channel 1 masked out and empty in every call; the stream ends with a
    /// partial call for the frames that are left (the polynomial is reproduced there too,
    /// wherever the window lies inside the supplied data)
    tail: bool,
}

impl Item {
    fn cfg(&self, chunk: usize) -> Cfg {
        let c = match self.pre {
            Some((r0, m, _)) => Cfg::fast(self.kind, r0, m, chunk, self.degree),
            None => Cfg::fast(self.kind, self.ratio, 1.0, chunk, self.degree),
        };
        if self.tail {
            c.with_channels(2)
        } else {
            c
        }
    }
    fn rel(&self) -> Option<f64> {
        self.pre.map(|p| p.2)
    }
}

fn items(tier: Tier) -> Vec<Item> {
    let ratios: Vec<f64> = if tier == Tier::Quick { vec![1.0 / 16.0, 0.37, 0.5, 1.0, 1.7, 4.1, 16.0] } else { RATIOS.to_vec() };
    let mut v = Vec::new();
    for degree in Degree::ALL {
        for &ratio in &ratios {
            for kind in [Kind::FI, Kind::FO] {
                v.push(Item { degree, ratio, kind, pre: None, ramp: false, pre2: None, tail: false });
            }
        }
        for (r0, m, x) in [(1.0, 4.0, 4.0), (1.0, 4.0, 0.25), (0.5, 2.0, 1.7), (2.0, 2.0, 0.6)] {
            for kind in [Kind::FI, Kind::FO] {
                v.push(Item { degree, ratio: r0 * x, kind, pre: Some((r0, m, x)), ramp: false, pre2: None, tail: false });
                v.push(Item { degree, ratio: r0 * x, kind, pre: Some((r0, m, x)), ramp: true, pre2: None, tail: false });
                // a second change after two calls: back towards the other end of the range
                let x2 = if x > 1.0 { 1.0 / m.min(2.0) } else { m.min(2.0) };
                v.push(Item { degree, ratio: r0 * x2, kind, pre: Some((r0, m, x)), ramp: false, pre2: Some(x2), tail: false });
            }
        }
        for ratio in [0.8, 1.25] {
            for kind in [Kind::FI, Kind::FO] {
                v.push(Item { degree, ratio, kind, pre: None, ramp: false, pre2: None, tail: true });
            }
        }
        // a trim of less than a billionth / a millionth after two chunks (clock-drift tracking):
        // the stream runs at the new ratio, however small the change
        for x2 in [1.0 + 8.0e-10, 1.0 - 9.0e-7] {
            for kind in [Kind::FI, Kind::FO] {
                v.push(Item { degree, ratio: 1.0 * x2, kind, pre: Some((1.0, 1.1, 1.0)), ramp: false, pre2: Some(x2), tail: false });
            }
        }
        // strong decimation (more than 7 input frames per output frame: the carried position lies
        // further back than the 16-frame history), two chunks, then a higher ratio - by half a
        // per mille, by 40 %
        for (r0, m, x2) in [(1.0 / 12.0, 1.5, 1.0005), (1.0 / 12.0, 1.5, 1.4), (1.0 / 40.0, 2.0, 1.05), (1.0 / 9.0, 1.5, 0.8)] {
            v.push(Item { degree, ratio: r0 * x2, kind: Kind::FI, pre: Some((r0, m, 1.0)), ramp: false, pre2: Some(x2), tail: false });
            v.push(Item { degree, ratio: r0 * x2, kind: Kind::FO, pre: Some((r0, m, 1.0)), ramp: false, pre2: Some(x2), tail: false });
        }
    }
    v
}

struct Acc {
    evals: u64,
    nontrivial: u64,
    found: Vec<Value>,
    outcomes: std::collections::BTreeSet<String>,
    worst_exact: f64,
    sharp: Vec<f64>,
    worst_tone: f64,
    worst_saw: f64,
    worst_saw_rel: f64,
}

fn fail(acc: &mut Acc, cfg: &Cfg, sig: &str, detail: String, point: String) {
    if acc.found.iter().filter(|f| f["sig"] == sig).count() < 6 {
        acc.found.push(json!({"prop": "C08", "sig": sig, "detail": detail, "cfg": cfg.to_json(), "history": "", "point": point}));
    }
}

/// The instants at which the output frames are evaluated, from the same configuration with
/// `Linear` (which reproduces the index signal exactly); control is degree independent.
fn instants(cfg: &Cfg, n_in: usize, rel: Option<f64>, ramp: bool, pre2: Option<f64>, tail: bool) -> Result<(Vec<f64>, usize), String> {
    let mut c = cfg.clone();
    c.degree = Degree::Linear;
    let base = 1048576.0;
    let x: Vec<f64> = (0..n_in).map(|n| n as f64 + base).collect();
    let s = resample_all_x::<f64>(&c, &x, &Opts { pre: rel, ramp, pre2: pre2.map(|x| (x, 2)), masked_tail: tail, ..Opts::default() })?;
    // frames of the first call (the ramp chunk when a ramp was requested), or of the first two
    // calls when the ratio is changed again after them
    let first_call = if pre2.is_some() { s.calls.iter().take(2).map(|c| c.1).sum() } else { s.calls.first().map(|c| c.1).unwrap_or(0) };
    let mut tau: Vec<f64> = s.out.iter().map(|y| y - base).collect();
    if tail {
        // the last call pads with zeros: instants whose interpolation window reaches the padding
        // are not instants any more
        if let Some(cut) = tau.iter().position(|t| *t + 5.0 >= n_in as f64) {
            tau.truncate(cut);
        }
    }
    Ok((tau, first_call))
}

fn one<T: Flt>(acc: &mut Acc, item: &Item, chunk: usize, journal: Option<&JournalFile>) -> Result<(), String> {
    let cfg = item.cfg(chunk);
    let rel = item.rel();
    // enough input for six chunks of either variant and a minimum length
    let n_in = (6.0 * chunk as f64 * (1.0f64).max(1.0 / item.ratio)) as usize + 200;
    let n_in = n_in.min(20000);
    let ramp = item.ramp;
    let pre2 = item.pre2;
    let (tau, first_call) = instants(&cfg, n_in, rel, ramp, pre2, item.tail)?;
    // uniform spacing 1/ratio
    let step = 1.0 / item.ratio;
    let mut first_valid = tau.iter().position(|t| *t >= 4.0).unwrap_or(tau.len());
    if pre2.is_some() && !ramp && first_call >= 1 {
        // a change without ramp applies from the first frame of the next call: the spacing
        // across that call boundary is already the new step
        first_valid = first_valid.max(first_call - 1).min(tau.len());
    } else if ramp || pre2.is_some() {
        first_valid = first_valid.max(first_call + 1).min(tau.len());
    }
    for w in tau[first_valid..].windows(2) {
        if ((w[1] - w[0]) - step).abs() > 1e-8 * step.max(1.0) {
            fail(acc, &cfg, "instants-not-uniform", format!("spacing {:?} instead of {:?}", w[1] - w[0], step), format!("T={} chunk={}", T::NAME, chunk));
            break;
        }
    }
    let deg = item.degree.degree();
    let eps_t = if T::IS_F32 { f32::EPSILON as f64 } else { f64::EPSILON };
    // the monomials, and once more the straight line with one NaN sample in the middle of the
    // stream: frames whose window holds the NaN are NaN, every finite frame is still the value
    // of the polynomial at its instant
    let passes: Vec<(usize, bool)> = (0..=(deg + 1)).map(|k| (k, false)).chain(if deg >= 1 { Some((1usize, true)) } else { None }).collect();
    for (k, poison) in passes {
        if let Some(j) = journal {
            j.write(&cfg.to_json(), &format!("monomial k={} T={}{}", k, T::NAME, if poison { " with a NaN sample" } else { "" }));
        }
        let mut x: Vec<f64> = (0..n_in).map(|n| (n as f64 / 64.0).powi(k as i32)).collect();
        if poison {
            x[n_in / 2] = f64::NAN;
        }
        // in f32 the input itself is rounded: compare with the polynomial through the rounded
        // samples only up to the conditioning of the interpolation formula
        let s = resample_all_x::<T>(&cfg, &x, &Opts { pre: rel, ramp, pre2: pre2.map(|x| (x, 2)), masked_tail: item.tail, ..Opts::default() })?;
        if let (Some(fr), Some(x2), Some((r0, _, _)), true) = (s.final_ratio, pre2, item.pre, k == 0) {
            // the ratio the stream ended on is the one requested last, bit for bit
            if s.calls.len() > 2 && fr.to_bits() != (r0 * x2).to_bits() {
                fail(acc, &cfg, "ratio-in-use-is-not-the-requested-one", format!("after set_resample_ratio_relative({:?}, false) and {} more calls the resampler runs at {:?}, requested {:?}", x2, s.calls.len() - 2, fr, r0 * x2), format!("T={} chunk={}", T::NAME, chunk));
            }
        }
        acc.evals += 1;
        let n = s.out.len().min(tau.len());
        let mut worst = 0.0f64;
        let mut worst_at = 0usize;
        let mut count = 0u64;
        for j in first_valid..n {
            let t = tau[j];
            if t + 5.0 >= s.consumed as f64 {
                break;
            }
            let expect = if item.degree == Degree::Nearest {
                // the sample at or just before the instant
                let fl = t.floor();
                let cands = if (t - fl) < 1e-9 && fl >= 1.0 { vec![fl, fl - 1.0] } else if (fl + 1.0 - t) < 1e-9 { vec![fl, fl + 1.0] } else { vec![fl] };
                let y = s.out[j];
                let mut best = f64::INFINITY;
                for c in cands {
                    let e = T::from64(x[c as usize]).to64();
                    if (y - e).abs() < best {
                        best = (y - e).abs();
                    }
                }
                count += 1;
                if best > worst {
                    worst = best;
                    worst_at = j;
                }
                continue;
            } else if k <= deg {
                (t / 64.0).powi(k as i32)
            } else {
                // one degree more: the interpolation error of x^(d+1) through d+1 nodes is
                // exactly prod(t - node_i) / 64^(d+1); this pins down which nodes are used
                let fl = t.floor();
                let (lo, hi) = match item.degree {
                    Degree::Septic => (-3, 4),
                    Degree::Quintic => (-2, 3),
                    Degree::Cubic => (-1, 2),
                    _ => (0, 1),
                };
                let mut prod = 1.0;
                for o in lo..=hi {
                    prod *= t - (fl + o as f64);
                }
                (t / 64.0).powi(k as i32) - prod / 64f64.powi(k as i32)
            };
            let scale = expect.abs().max(1.0);
            let e = (s.out[j] - expect).abs() / scale;
            count += 1;
            if e > worst {
                worst = e;
                worst_at = j;
            }
        }
        if count > 16 {
            acc.nontrivial += 1;
        }
        let point = format!("T={} chunk={} monomial (n/64)^{}", T::NAME, chunk, k);
        if item.degree == Degree::Nearest {
            // Nearest: picks an input sample bit-exactly, whatever the signal
            acc.outcomes.insert(format!("{}:nearest:{}", T::NAME, if worst == 0.0 { "exact" } else { "off" }));
            if worst != 0.0 {
                fail(acc, &cfg, "nearest-not-a-sample", format!("output frame {} (instant {:?}) is not the input sample at or just before the instant (off by {:e})", worst_at, tau[worst_at], worst), point);
            }
            continue;
        }
        if k <= deg {
            // exact up to rounding: the Lagrange formulas cancel terms of size ~ scale * cond
            let cond = match item.degree {
                Degree::Septic => 2.0e3,
                Degree::Quintic => 1.3e2,
                Degree::Cubic => 1.0e1,
                _ => 3.0,
            };
            let tol = if T::IS_F32 { cond * eps_t } else { 1e-9 };
            acc.worst_exact = acc.worst_exact.max(worst / if T::IS_F32 { cond * eps_t } else { 1e-9 });
            acc.outcomes.insert(format!("{}:{}:k<=deg:{}", T::NAME, item.degree.name(), if worst <= tol { "exact" } else { "INEXACT" }));
            if !(worst <= tol) {
                fail(acc, &cfg, "polynomial-not-reproduced", format!("degree-{} input (n/64)^{} is reproduced with relative error {:e} at output frame {} (instant {:?}); tolerance {:e}", k, k, worst, worst_at, tau.get(worst_at), tol), point);
            }
        } else if !T::IS_F32 {
            // one degree more: the output must be the polynomial through exactly the documented
            // nodes (predicted error term included), which also shows the oracle is sharp
            acc.sharp.push(worst);
            acc.outcomes.insert(format!("{}:{}:k=deg+1:{}", T::NAME, item.degree.name(), if worst <= 1e-9 { "matches-node-polynomial" } else { "OFF" }));
            if !(worst <= 1e-9) {
                fail(acc, &cfg, "wrong-interpolation-nodes", format!("input (n/64)^{} is not reproduced as the degree-{} polynomial through the {} samples nearest to the instant (relative deviation {:e} at output frame {}, instant {:?})", k, deg, deg + 1, worst, worst_at, tau.get(worst_at)), point);
            }
        }
    }
    // classical interpolation bound on sinusoids
    if !T::IS_F32 {
        let c_d = match item.degree {
            Degree::Septic => 35.0 / 32768.0,
            Degree::Quintic => 5.0 / 1024.0,
            Degree::Cubic => 3.0 / 128.0,
            Degree::Linear => 1.0 / 8.0,
            Degree::Nearest => 1.0,
        };
        for f in [0.05f64, 0.1, 0.2, 0.4] {
            let w = std::f64::consts::PI * f;
            let x: Vec<f64> = (0..n_in).map(|n| (w * n as f64 + 0.3).sin()).collect();
            let s = resample_all_x::<f64>(&cfg, &x, &Opts { pre: rel, ramp, pre2: pre2.map(|x| (x, 2)), masked_tail: item.tail, ..Opts::default() })?;
            acc.evals += 1;
            let n = s.out.len().min(tau.len());
            let mut worst = 0.0f64;
            for j in first_valid..n {
                if tau[j] + 5.0 >= s.consumed as f64 {
                    break;
                }
                worst = worst.max((s.out[j] - (w * tau[j] + 0.3).sin()).abs());
            }
            let bound = c_d * w.powi(deg as i32 + 1) + 1e-12;
            acc.worst_tone = acc.worst_tone.max(worst / bound);
            if !(worst <= bound) {
                fail(acc, &cfg, "sinusoid-error-exceeds-bound", format!("tone f={} error {:e} > classical bound {:e}", f, worst, bound), format!("T=f64 chunk={} tone f={}", chunk, f));
            }
        }
    }
    Ok(())
}

/// Large chunks: the position inside a chunk runs into the tens of thousands, where an f32
/// could no longer hold its fractional part. The input is a sawtooth of local polynomials,
/// x[n] = (((n mod 64) - 32) / 8)^k: interpolation is local, so wherever the interpolation
/// window lies inside one tooth the output must be that polynomial at the instant; all values
/// stay small, so single precision resolves the output to a few eps everywhere in the chunk.
fn sawtooth<T: Flt>(acc: &mut Acc, item: &Item, chunk: usize, journal: Option<&JournalFile>) -> Result<(), String> {
    let cfg = item.cfg(chunk);
    let rel = item.rel();
    let span = chunk as f64 * if item.kind == Kind::FO { 1.0 / item.ratio } else { 1.0 };
    let n_in = (2.2 * span) as usize + 400;
    let ramp = item.ramp;
    let pre2 = item.pre2;
    let (tau, first_call) = instants(&cfg, n_in, rel, ramp, pre2, item.tail)?;
    let deg = item.degree.degree();
    let eps_t = if T::IS_F32 { f32::EPSILON as f64 } else { f64::EPSILON };
    let (lo, hi) = match item.degree {
        Degree::Septic => (-3i64, 4i64),
        Degree::Quintic => (-2, 3),
        Degree::Cubic => (-1, 2),
        Degree::Linear => (0, 1),
        Degree::Nearest => (-1, 1),
    };
    let ks: Vec<usize> = if item.degree == Degree::Nearest { vec![1] } else { (1..=deg).collect() };
    for k in ks {
        if let Some(j) = journal {
            j.write(&cfg.to_json(), &format!("sawtooth k={} T={} chunk={}", k, T::NAME, chunk));
        }
        let tooth = |n: f64| (((n % 64.0) - 32.0) / 8.0).powi(k as i32);
        let x: Vec<f64> = (0..n_in).map(|n| tooth(n as f64)).collect();
        let s = resample_all_x::<T>(&cfg, &x, &Opts { pre: rel, ramp, pre2: pre2.map(|x| (x, 2)), masked_tail: item.tail, ..Opts::default() })?;
        acc.evals += 1;
        let n = s.out.len().min(tau.len());
        let (mut worst, mut worst_at, mut count) = (0.0f64, 0usize, 0u64);
        for j in 0..n {
            let t = tau[j];
            if t < 4.0 || ((ramp || pre2.is_some()) && j <= first_call) {
                continue;
            }
            if t + 5.0 >= s.consumed as f64 {
                break;
            }
            let fl = t.floor() as i64;
            if (fl + lo).div_euclid(64) != (fl + hi).div_euclid(64) {
                continue; // window straddles two teeth
            }
            let e = if item.degree == Degree::Nearest {
                let frac = t - fl as f64;
                let mut cands = vec![fl];
                if frac < 1e-9 {
                    cands.push(fl - 1);
                }
                if 1.0 - frac < 1e-9 {
                    cands.push(fl + 1);
                }
                cands.iter().map(|c| (s.out[j] - T::from64(x[*c as usize]).to64()).abs()).fold(f64::INFINITY, f64::min)
            } else {
                let base = (fl.div_euclid(64) * 64) as f64;
                let expect = ((t - base - 32.0) / 8.0).powi(k as i32);
                // local scale: the largest sample in the window
                let scale = (lo..=hi).map(|o| x[(fl + o) as usize].abs()).fold(1e-30, f64::max);
                (s.out[j] - expect).abs() / scale
            };
            count += 1;
            if e > worst {
                worst = e;
                worst_at = j;
            }
        }
        if count > 16 {
            acc.nontrivial += 1;
        }
        let point = format!("T={} chunk={} sawtooth (((n mod 64)-32)/8)^{}", T::NAME, chunk, k);
        if item.degree == Degree::Nearest {
            acc.outcomes.insert(format!("{}:nearest-large-chunk:{}", T::NAME, if worst == 0.0 { "exact" } else { "off" }));
            if worst != 0.0 {
                fail(acc, &cfg, "nearest-not-a-sample", format!("output frame {} (instant {:?}) is not the input sample at or just before the instant (off by {:e})", worst_at, tau[worst_at], worst), point);
            }
            continue;
        }
        // rounding only, relative to the largest sample in the window: 6 eps in f32 (worst value
        // measured on the unchanged tree: 1.3 eps); in f64 the instants themselves, read off an
        // index signal with offset 2^20, are only known to 2^-32
        let tol = if T::IS_F32 { SAW_EPS_F32 * eps_t } else { 2e-9 };
        let cond = tol / eps_t;
        acc.worst_saw = acc.worst_saw.max(worst / eps_t);
        acc.worst_saw_rel = acc.worst_saw_rel.max(worst / tol);
        acc.outcomes.insert(format!("{}:{}:large-chunk:{}", T::NAME, item.degree.name(), if worst <= tol { "exact" } else { "INEXACT" }));
        if !(worst <= tol) {
            fail(acc, &cfg, "polynomial-not-reproduced", format!("local degree-{} polynomial is reproduced with error {:e} of the largest sample in the window ({:.1} eps) at output frame {} (instant {:?}); tolerance {:.1} eps", k, worst, worst / eps_t, worst_at, tau.get(worst_at), cond), point);
        }
    }
    Ok(())
}

/// f32 tolerance of the sawtooth test in units of f32 epsilon
const SAW_EPS_F32: f64 = 6.0;

impl Check for C08 {
    fn id(&self) -> &'static str {
        "C08"
    }
    fn level(&self) -> &'static str {
        "exploration"
    }
    fn engine(&self) -> &'static str {
        "E2 exhaustive lattice: monomial basis x degree x ratio x variant x chunking on the real resamplers"
    }
    fn n_items(&self, tier: Tier) -> usize {
        items(tier).len() + 1
    }
    fn run_item(&self, tier: Tier, idx: usize, journal: Option<&JournalFile>) -> Result<Value, String> {
        if idx == items(tier).len() {
            return crate::wide::c08_item();
        }
        let item = items(tier).into_iter().nth(idx).ok_or("no item")?;
        let mut acc = Acc { evals: 0, nontrivial: 0, found: vec![], outcomes: Default::default(), worst_exact: 0.0, sharp: vec![], worst_tone: 0.0, worst_saw: 0.0, worst_saw_rel: 0.0 };
        let chunks: Vec<usize> = if tier == Tier::Quick { vec![1, 5, 32, 257] } else { CHUNKS.to_vec() };
        for chunk in chunks {
            one::<f64>(&mut acc, &item, chunk, journal)?;
            one::<f32>(&mut acc, &item, chunk, journal)?;
        }
        let big: Vec<usize> = vec![4096, 32768, 100000];
        for chunk in big {
            sawtooth::<f64>(&mut acc, &item, chunk, journal)?;
            sawtooth::<f32>(&mut acc, &item, chunk, journal)?;
        }
        let label = format!("{} {} r={:?}{}", item.kind.name(), item.degree.name(), item.ratio, item.pre.map(|p| format!(" (constructed at {}, set_resample_ratio_relative({}, {}))", p.0, p.2, item.ramp)).unwrap_or_default() + &item.pre2.map(|x| format!(" then set_resample_ratio_relative({}, false) after two calls", x)).unwrap_or_default());
        let sharp_min = acc.sharp.iter().cloned().fold(f64::INFINITY, f64::min);
        Ok(json!({
            "label": label, "evaluations": acc.evals, "nontrivial": acc.nontrivial,
            "outcomes": acc.outcomes.iter().collect::<Vec<_>>(), "found": acc.found,
            "samples": [{"item": label, "inputs": "(n/64)^k for k = 0..degree+1, four tones", "instants": "read off the index signal through the Linear twin of the same configuration"}],
            "extra": {"worst_exact": acc.worst_exact, "sharp_min": if sharp_min.is_finite() { sharp_min } else { -1.0 }, "worst_tone": acc.worst_tone, "worst_saw_eps": acc.worst_saw, "worst_saw": acc.worst_saw_rel},
        }))
    }
    fn finalize(&self, _tier: Tier, items: &[Value], cov: &mut Map<String, Value>) {
        let f = |k: &str| items.iter().map(|v| v["extra"][k].as_f64().unwrap_or(0.0)).fold(0.0, f64::max);
        cov.insert("worst_exactness_error_over_tolerance".into(), json!(f("worst_exact")));
        cov.insert("worst_tone_error_over_classical_bound".into(), json!(f("worst_tone")));
        let sm = items.iter().map(|v| v["extra"]["sharp_min"].as_f64().unwrap_or(-1.0)).filter(|x| *x >= 0.0).fold(f64::INFINITY, f64::min);
        cov.insert("smallest_deviation_from_node_polynomial_for_degree_plus_one_input".into(), json!(if sm.is_finite() { sm } else { -1.0 }));
    }
    fn replay(&self, replay: &Value) -> Result<(bool, String), String> {
        crate::frame::replay_by_item(self, replay)
    }
    fn rule(&self, _tier: Tier) -> String {
        "full product of degree(5) x ratio (also 4 ratios reached by set_resample_ratio_relative on the fresh resampler, without ramp, with ramp - then from the second chunk on -, and followed by a second change after two calls) x {FastFixedIn, FastFixedOut} x chunk x {f32,f64} x monomial (n/64)^k for k = 0..degree (must be exact to rounding) and k = degree+1 (must equal the polynomial through exactly the documented nodes, error term prod(t-node)/64^k included), every output frame of six chunks whose window lies in supplied data; Nearest: the input sample at or just before the instant, bit-exact; four tones against the classical bound C_d*(pi f)^(d+1); large chunks (4096, 32768 and 100000 frames): sawtooth of local polynomials (((n mod 64)-32)/8)^k, k = 1..degree, every output frame whose window lies inside one tooth, to 6 eps (f32) of the largest sample in the window. Non-trivial = more than 16 frames compared".into()
    }
    fn assumptions(&self) -> Vec<String> {
        vec![
            "instants are taken from the Linear twin of the same configuration (position bookkeeping is degree independent; C06 checks the instants themselves)".into(),
            "f32 tolerance = conditioning of the Lagrange formula (2e3/1.3e2/10/3; about 4x the worst value measured on the unchanged tree) x f32 epsilon, relative to max(1,|value|)".into(),
            "sawtooth test: interpolation is local (8/6/4/2 samples), so a piecewise polynomial is reproduced wherever the window lies inside one piece".into(),
        ]
    }
    fn vacuity(&self, _tier: Tier) -> (u64, u64) {
        (100, 4)
    }
}
