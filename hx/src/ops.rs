//! The operation alphabet (DESIGN.md 4.2) and its textual form used in histories.

#[derive(Clone, Copy, Debug, PartialEq)]
pub enum Bad {
    /// number of input channels: n-1, n+1, 0
    InChans(i8),
    /// number of output channels: n-1, n+1, 0 (i8::MIN encodes 0)
    OutChans(i8),
    /// active input channel `ch` short by: 1 => one frame, 2 => half, 3 => empty
    InShort(u8, u8),
    OutShort(u8, u8),
    /// mask length n-1, n+1, 0
    MaskLen(i8),
    /// mask length wrong, passed to the allocating wrapper process()
    WrapMaskLen(i8),
    /// mask length wrong, passed to process_partial()
    WrapPartialMaskLen(i8),
    /// wrong number of input channels, passed to the allocating wrapper process()
    WrapInChans(i8),
    /// active input channel short, passed to process()
    WrapInShort(u8, u8),
    /// wrong number of input channels, passed to process_partial_into_buffer(Some(..))
    WrapPartialInChans(i8),
    /// partially false mask (bits) and active channel `ch` input short by one
    MaskedInShort(u32, u8),
    /// partially false mask (bits) and active channel `ch` output short by one
    MaskedOutShort(u32, u8),
    /// two channels short by different amounts: channel 0 by one frame, the last channel by half
    /// (the error has to name the first offending channel with that channel's own length)
    InShortBoth,
    /// the same for the output buffers
    OutShortBoth,
    /// a mask of the right length with every channel off (inputs and outputs of the inactive
    /// channels empty) and the wrong number of output channels: n-1, n+1, 0
    AllOffOutChans(i8),
    /// the same with the wrong number of input channels
    AllOffInChans(i8),
}

#[derive(Clone, Copy, Debug, PartialEq)]
pub enum Op {
    /// process_into_buffer with buffers sized by *_buffer_allocate (plus slack cells)
    P,
    /// process_into_buffer with buffers sized exactly input/output_frames_next
    Px,
    /// process_into_buffer where every channel is handed the very same input slice (same
    /// pointer: mono material routed to all channels); the data is noise channel 0 whatever the
    /// signal of the run, so that a single-channel twin sees the same samples
    Pa,
    /// set_resample_ratio_relative(x, ramp)
    R(f64, bool),
    /// set_resample_ratio(v, ramp)
    Ra(f64, bool),
    /// set_chunk_size(k)
    C(usize),
    /// reset
    Z,
    /// process_partial_into_buffer(Some(first n frames)) / None
    PP(Option<usize>),
    /// process_into_buffer with a mask (bit c = channel c active); bool: inactive channels are
    /// passed as empty slices (true) or as full sentinel-filled slices (false)
    PM(u32, bool),
    /// process_partial_into_buffer(Some(first n frames)) with a mask; bool: inactive channels are
    /// passed as empty slices (true) or with n frames like the active ones (false)
    PPM(u32, usize, bool),
    /// process() (allocating)
    W,
    /// process_partial(Some(first n frames)) / None
    WP(Option<usize>),
    /// a malformed call
    Bad(Bad),
}

fn b(x: bool) -> &'static str {
    if x {
        "T"
    } else {
        "F"
    }
}

fn delta(d: i8) -> String {
    if d == i8::MIN {
        "0".to_string()
    } else {
        format!("{:+}", d)
    }
}

fn parse_delta(s: &str) -> Option<i8> {
    if s == "0" {
        Some(i8::MIN)
    } else {
        s.parse::<i8>().ok()
    }
}

impl Op {
    pub fn text(&self) -> String {
        match self {
            Op::P => "P".into(),
            Op::Px => "Px".into(),
            Op::Pa => "Pa".into(),
            Op::R(x, r) => format!("R({:?},{})", x, b(*r)),
            Op::Ra(x, r) => format!("Ra({:?},{})", x, b(*r)),
            Op::C(k) => format!("C({})", k),
            Op::Z => "Z".into(),
            Op::PP(None) => "PP(-)".into(),
            Op::PP(Some(n)) => format!("PP({})", n),
            Op::PM(m, e) => format!("PM({:b},{})", m, if *e { "e" } else { "s" }),
            Op::PPM(m, n, e) => format!("PPM({:b},{},{})", m, n, if *e { "e" } else { "s" }),
            Op::W => "W".into(),
            Op::WP(None) => "WP(-)".into(),
            Op::WP(Some(n)) => format!("WP({})", n),
            Op::Bad(x) => match x {
                Bad::InChans(d) => format!("BAD(inchans,{})", delta(*d)),
                Bad::OutChans(d) => format!("BAD(outchans,{})", delta(*d)),
                Bad::InShort(c, h) => format!("BAD(inshort,{},{})", c, h),
                Bad::OutShort(c, h) => format!("BAD(outshort,{},{})", c, h),
                Bad::MaskLen(d) => format!("BAD(masklen,{})", delta(*d)),
                Bad::WrapMaskLen(d) => format!("BAD(wrapmasklen,{})", delta(*d)),
                Bad::WrapPartialMaskLen(d) => format!("BAD(wrappartialmasklen,{})", delta(*d)),
                Bad::WrapInChans(d) => format!("BAD(wrapinchans,{})", delta(*d)),
                Bad::WrapInShort(c, h) => format!("BAD(wrapinshort,{},{})", c, h),
                Bad::WrapPartialInChans(d) => format!("BAD(wrappartialinchans,{})", delta(*d)),
                Bad::MaskedInShort(m, c) => format!("BAD(maskedinshort,{:b},{})", m, c),
                Bad::MaskedOutShort(m, c) => format!("BAD(maskedoutshort,{:b},{})", m, c),
                Bad::InShortBoth => "BAD(inshortboth)".to_string(),
                Bad::OutShortBoth => "BAD(outshortboth)".to_string(),
                Bad::AllOffOutChans(d) => format!("BAD(alloffoutchans,{})", delta(*d)),
                Bad::AllOffInChans(d) => format!("BAD(alloffinchans,{})", delta(*d)),
            },
        }
    }

    pub fn parse(s: &str) -> Result<Op, String> {
        let err = || format!("cannot parse op '{}'", s);
        let (name, args): (&str, Vec<&str>) = match s.find('(') {
            None => (s, vec![]),
            Some(i) => {
                if !s.ends_with(')') {
                    return Err(err());
                }
                (&s[..i], s[i + 1..s.len() - 1].split(',').collect())
            }
        };
        let flag = |x: &str| match x {
            "T" => Ok(true),
            "F" => Ok(false),
            _ => Err(err()),
        };
        let optn = |x: &str| -> Result<Option<usize>, String> {
            if x == "-" {
                Ok(None)
            } else {
                x.parse::<usize>().map(Some).map_err(|_| err())
            }
        };
        Ok(match (name, args.len()) {
            ("P", 0) => Op::P,
            ("Px", 0) => Op::Px,
            ("Pa", 0) => Op::Pa,
            ("Z", 0) => Op::Z,
            ("W", 0) => Op::W,
            ("R", 2) => Op::R(args[0].parse().map_err(|_| err())?, flag(args[1])?),
            ("Ra", 2) => Op::Ra(args[0].parse().map_err(|_| err())?, flag(args[1])?),
            ("C", 1) => Op::C(args[0].parse().map_err(|_| err())?),
            ("PP", 1) => Op::PP(optn(args[0])?),
            ("WP", 1) => Op::WP(optn(args[0])?),
            ("PPM", 3) => Op::PPM(
                u32::from_str_radix(args[0], 2).map_err(|_| err())?,
                args[1].parse().map_err(|_| err())?,
                match args[2] {
                    "e" => true,
                    "s" => false,
                    _ => return Err(err()),
                },
            ),
            ("PM", 2) => Op::PM(
                u32::from_str_radix(args[0], 2).map_err(|_| err())?,
                match args[1] {
                    "e" => true,
                    "s" => false,
                    _ => return Err(err()),
                },
            ),
            ("BAD", _) if !args.is_empty() => {
                let d = |i: usize| parse_delta(args.get(i).copied().unwrap_or("")).ok_or_else(err);
                let u = |i: usize| {
                    args.get(i)
                        .and_then(|x| x.parse::<u8>().ok())
                        .ok_or_else(err)
                };
                let m = |i: usize| {
                    args.get(i)
                        .and_then(|x| u32::from_str_radix(x, 2).ok())
                        .ok_or_else(err)
                };
                Op::Bad(match args[0] {
                    "inchans" => Bad::InChans(d(1)?),
                    "outchans" => Bad::OutChans(d(1)?),
                    "inshort" => Bad::InShort(u(1)?, u(2)?),
                    "outshort" => Bad::OutShort(u(1)?, u(2)?),
                    "masklen" => Bad::MaskLen(d(1)?),
                    "wrapmasklen" => Bad::WrapMaskLen(d(1)?),
                    "wrappartialmasklen" => Bad::WrapPartialMaskLen(d(1)?),
                    "wrapinchans" => Bad::WrapInChans(d(1)?),
                    "wrapinshort" => Bad::WrapInShort(u(1)?, u(2)?),
                    "wrappartialinchans" => Bad::WrapPartialInChans(d(1)?),
                    "maskedinshort" => Bad::MaskedInShort(m(1)?, u(2)?),
                    "maskedoutshort" => Bad::MaskedOutShort(m(1)?, u(2)?),
                    "inshortboth" => Bad::InShortBoth,
                    "outshortboth" => Bad::OutShortBoth,
                    "alloffoutchans" => Bad::AllOffOutChans(d(1)?),
                    "alloffinchans" => Bad::AllOffInChans(d(1)?),
                    _ => return Err(err()),
                })
            }
            _ => return Err(err()),
        })
    }

    /// Does this operation run the processing loop (as opposed to a setter / reset)?
    pub fn is_processing(&self) -> bool {
        matches!(
            self,
            Op::P | Op::Px | Op::Pa | Op::PP(_) | Op::PM(_, _) | Op::PPM(_, _, _) | Op::W | Op::WP(_)
        )
    }
}

pub fn history_text(h: &[Op]) -> String {
    // run-length compress P
    let mut out: Vec<String> = Vec::new();
    let mut i = 0;
    while i < h.len() {
        if h[i] == Op::P {
            let mut j = i;
            while j < h.len() && h[j] == Op::P {
                j += 1;
            }
            if j - i > 1 {
                out.push(format!("P*{}", j - i));
            } else {
                out.push("P".into());
            }
            i = j;
        } else {
            out.push(h[i].text());
            i += 1;
        }
    }
    out.join(" ")
}

pub fn history_parse(s: &str) -> Result<Vec<Op>, String> {
    let mut out = Vec::new();
    for tok in s.split_whitespace() {
        if let Some(rest) = tok.strip_prefix("P*") {
            let n: usize = rest.parse().map_err(|_| format!("bad token {}", tok))?;
            for _ in 0..n {
                out.push(Op::P);
            }
        } else {
            out.push(Op::parse(tok)?);
        }
    }
    Ok(out)
}
