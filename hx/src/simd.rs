//! C15: the SIMD sinc kernels equal the scalar kernel; CPU dispatch is transparent.
//!
//! Deciding half: unit impulses. A dot product with a unit impulse returns one table entry with
//! no rounding in any summation order (FMA included), so all kernels must be bit-identical,
//! and exactly zero outside [index, index+len). Rounding half: hard waveforms, bound in ulps of
//! the sum of absolute products.

use crate::cfg::{window_name, Cfg, Interp, Kernel, Kind, WINDOWS};
use crate::e2::resample_all;
use crate::frame::{Check, JournalFile, Tier};
use crate::run::{splitmix, Flt};
use rubato::sinc_interpolator::sinc_interpolator_avx::AvxInterpolator;
use rubato::sinc_interpolator::sinc_interpolator_sse::SseInterpolator;
use rubato::sinc_interpolator::{ScalarInterpolator, SincInterpolator};
use rubato::WindowFunction;
use serde_json::{json, Map, Value};

pub struct C15;

#[derive(Clone, Debug)]
enum Item {
    Impulse { len: usize, f32t: bool, window: WindowFunction },
    Dispatch { f32t: bool },
    /// the guarded windows again in an unoptimised build of the library (a load whose value is
    /// never used is removed by the optimiser, and the out-of-window access with it)
    GuardPlain,
}

fn lens(tier: Tier) -> Vec<usize> {
    if tier == Tier::Quick {
        // every length up to 512 and a few longer ones
        let mut v: Vec<usize> = (1..=64).map(|k| 8 * k).collect();
        v.extend([520, 776, 1024, 2048]);
        v
    } else {
        (1..=128).map(|k| 8 * k).collect()
    }
}

fn items(tier: Tier) -> Vec<Item> {
    let mut v = Vec::new();
    for f32t in [false, true] {
        for len in lens(tier) {
            v.push(Item::Impulse { len, f32t, window: WindowFunction::BlackmanHarris2 });
        }
        for w in WINDOWS {
            v.push(Item::Impulse { len: 64, f32t, window: w });
            if tier == Tier::Thorough {
                v.push(Item::Impulse { len: 72, f32t, window: w });
                v.push(Item::Impulse { len: 256, f32t, window: w });
            }
        }
        v.push(Item::Dispatch { f32t });
    }
    v.push(Item::GuardPlain);
    v
}

struct Acc {
    evals: u64,
    nontrivial: u64,
    found: Vec<Value>,
    outcomes: std::collections::BTreeSet<String>,
    worst_ulps: f64,
}

extern "C" {
    fn mmap(addr: *mut u8, len: usize, prot: i32, flags: i32, fd: i32, off: i64) -> *mut u8;
    fn mprotect(addr: *mut u8, len: usize, prot: i32) -> i32;
    fn munmap(addr: *mut u8, len: usize) -> i32;
}

/// `n` elements of T in anonymous memory, placed so that the last element ends exactly at an
/// inaccessible page (`at_end`) or the first one starts exactly after one.
struct Guarded<T> {
    base: *mut u8,
    bytes: usize,
    data: *mut T,
    n: usize,
}

impl<T> Guarded<T> {
    fn new(n: usize, at_end: bool) -> Option<Self> {
        const PAGE: usize = 4096;
        let need = n * std::mem::size_of::<T>();
        let pages = (need + PAGE - 1) / PAGE;
        let bytes = (pages + 2) * PAGE;
        // PROT_READ|PROT_WRITE = 3, MAP_PRIVATE|MAP_ANONYMOUS = 0x22 (Linux)
        let base = unsafe { mmap(std::ptr::null_mut(), bytes, 3, 0x22, -1, 0) };
        if base.is_null() || base as isize == -1 {
            return None;
        }
        unsafe {
            if mprotect(base, PAGE, 0) != 0 || mprotect(base.add((pages + 1) * PAGE), PAGE, 0) != 0 {
                return None;
            }
        }
        let data = if at_end { unsafe { base.add((pages + 1) * PAGE - need) } } else { unsafe { base.add(PAGE) } } as *mut T;
        Some(Guarded { base, bytes, data, n })
    }
    #[allow(clippy::mut_from_ref)]
    fn slice(&self) -> &mut [T] {
        unsafe { std::slice::from_raw_parts_mut(self.data, self.n) }
    }
}

impl<T> Drop for Guarded<T> {
    fn drop(&mut self) {
        unsafe {
            munmap(self.base, self.bytes);
        }
    }
}

/// The guarded-window walk for one sample type; prints one line before every kernel call so
/// that the parent knows where a faulting child was (`hx c15guard`).
fn guard_walk<T: Flt>(count: &mut u64) -> Result<(), String> {
    use std::io::Write;
    let out = std::io::stdout();
    for len in [8usize, 16, 64, 72, 256, 1024] {
        for os in [1usize, 2, 256] {
            {
                let mut o = out.lock();
                let _ = writeln!(o, "AT constructing the scalar, SSE and AVX interpolators: {} len {} os {}", T::NAME, len, os);
                let _ = o.flush();
            }
            let scalar = ScalarInterpolator::<T>::new(len, os, 0.93, WindowFunction::BlackmanHarris2);
            let sse = SseInterpolator::<T>::new(len, os, 0.93, WindowFunction::BlackmanHarris2).map_err(|e| e.to_string())?;
            let avx = AvxInterpolator::<T>::new(len, os, 0.93, WindowFunction::BlackmanHarris2).map_err(|e| e.to_string())?;
            let kernels: [(&str, &dyn SincInterpolator<T>); 3] = [("scalar", &scalar), ("sse", &sse), ("avx", &avx)];
            for sub in [0usize, os - 1] {
                for back in 0..8usize {
                    for at_end in [true, false] {
                        let total = len + 1 + back;
                        let g = Guarded::<T>::new(total, at_end).ok_or("mmap failed")?;
                        for i in 0..total {
                            g.slice()[i] = T::from64(if i == back + len / 2 { 1.0 } else { 0.25 });
                        }
                        let start = if at_end { total - len - 1 } else { 0 };
                        for (name, k) in kernels.iter() {
                            {
                                let mut o = out.lock();
                                let _ = writeln!(o, "AT {} kernel {} len {} oversampling {} subindex {} start {} of {} samples, slice {}", T::NAME, name, len, os, sub, start, total, if at_end { "ends at an inaccessible page" } else { "starts after an inaccessible page" });
                                let _ = o.flush();
                            }
                            let v = k.get_sinc_interpolated(g.slice(), start, sub);
                            std::hint::black_box(v);
                            *count += 1;
                        }
                    }
                }
            }
        }
    }
    Ok(())
}

/// `hx c15guard`: run in the unoptimised build.
pub fn guard_main() -> i32 {
    let mut n = 0u64;
    if let Err(e) = guard_walk::<f64>(&mut n).and_then(|_| guard_walk::<f32>(&mut n)) {
        eprintln!("{}", e);
        return 2;
    }
    println!("DONE {}", n);
    0
}

fn guard_plain(acc: &mut Acc) -> Result<(), String> {
    let bin = std::env::var("HX_PLAIN_BIN").map_err(|_| "HX_PLAIN_BIN is not set (the unoptimised build of the harness; ./check builds it)".to_string())?;
    let out = std::process::Command::new(&bin).arg("c15guard").output().map_err(|e| format!("{}: {}", bin, e))?;
    let text = String::from_utf8_lossy(&out.stdout);
    let last = text.lines().rev().find(|l| l.starts_with("AT ") || l.starts_with("DONE ")).unwrap_or("").to_string();
    if out.status.success() {
        let n: u64 = last.strip_prefix("DONE ").and_then(|x| x.trim().parse().ok()).ok_or("c15guard: no DONE line")?;
        acc.evals += n;
        acc.nontrivial += n;
        acc.outcomes.insert("guard-plain:clean".into());
        return Ok(());
    }
    use std::os::unix::process::ExitStatusExt;
    if out.status.signal().is_some() && last.starts_with("AT ") {
        acc.outcomes.insert("guard-plain:FAULT".into());
        let sig = if last.contains("constructing") { "process-dies-in-kernel-constructor" } else { "touches-memory-outside-the-window" };
        fail(acc, sig, format!("unoptimised build: the process died ({}) in this call: {}", out.status, &last[3..]), "guarded windows, unoptimised build".to_string());
        return Ok(());
    }
    Err(format!("c15guard failed ({}): {}", out.status, String::from_utf8_lossy(&out.stderr)))
}

fn fail(acc: &mut Acc, sig: &str, detail: String, point: String) {
    if acc.found.iter().filter(|f| f["sig"] == sig).count() < 6 {
        acc.found.push(json!({
            "prop": "C15", "sig": sig, "detail": detail,
            "cfg": {"kind": "SI", "ratio": 1.0, "max_rel": 1.0, "chunk": 64, "channels": 1, "sinc_len": 64, "oversampling": 2, "interp": "Cubic", "kernel": "Dispatch"},
            "history": "", "point": point,
        }));
    }
}

fn impulses<T: Flt>(acc: &mut Acc, tier: Tier, len: usize, window: WindowFunction, journal: Option<&JournalFile>) -> Result<(), String> {
    let q = tier == Tier::Quick;
    let overs: Vec<usize> = if q { vec![1, 2, 3, 5, 128, 256] } else { vec![1, 2, 3, 4, 5, 6, 7, 100, 128, 160, 256, 2048] };
    let starts: Vec<usize> = if q { vec![0, 1, 8] } else { (0..=8).collect() };
    let misaligns: Vec<usize> = if q { vec![0, 1, 3, 7] } else { (0..8).collect() };
    let eps = if T::IS_F32 { f32::EPSILON as f64 } else { f64::EPSILON };
    // 1.08: a cutoff above the Nyquist frequency is accepted by every constructor (the dispatching
    // resamplers reach it with f_cutoff * ratio > 1 too) and must give the same table everywhere
    let cutoffs: Vec<f32> = if q { vec![0.93, 1.08] } else { vec![0.93, 0.41, 1.08, 1.5, 0.02] };
    for (&os, &f_cutoff) in overs.iter().flat_map(|o| cutoffs.iter().map(move |c| (o, c))) {
        if let Some(j) = journal {
            j.write(&json!({"len": len, "os": os, "T": T::NAME, "f_cutoff": f_cutoff}), "constructing the scalar, SSE and AVX interpolators");
        }
        let scalar = ScalarInterpolator::<T>::new(len, os, f_cutoff, window);
        let sse = SseInterpolator::<T>::new(len, os, f_cutoff, window).map_err(|e| format!("SSE kernel unavailable: {}", e))?;
        let avx = AvxInterpolator::<T>::new(len, os, f_cutoff, window).map_err(|e| format!("AVX kernel unavailable: {}", e))?;
        let kernels: [(&str, &dyn SincInterpolator<T>); 3] = [("scalar", &scalar), ("sse", &sse), ("avx", &avx)];
        let subs: Vec<usize> = if os <= 7 {
            (0..os).collect()
        } else {
            // representatives: both ends, powers of two and their neighbours
            let mut v: Vec<usize> = vec![0, 1, 2, os / 4 - 1, os / 4, os / 2 - 1, os / 2, os / 2 + 1, os - 2, os - 1];
            if !q {
                v.extend([3, 7, 8, 15, 16, 31, 32, 63, 64, 127, 128, 255, 256, 1023, 1024].into_iter().filter(|x| *x < os));
            }
            v.sort();
            v.dedup();
            v
        };
        for &sub in &subs {
            // the table of this branch, read through the scalar kernel with impulses
            let mut table = vec![0.0f64; len];
            for &start in &starts {
                for &mis in &misaligns {
                    if let Some(j) = journal {
                        j.write(&json!({"len": len, "os": os, "T": T::NAME}), &format!("impulses sub {} start {} misalign {}", sub, start, mis));
                    }
                    let total = start + len + 17;
                    let mut storage: Vec<T> = vec![T::from64(0.0); total + mis + 8];
                    let lo = start.saturating_sub(8);
                    let hi = (start + len + 8).min(total - 1);
                    for p in lo..=hi {
                        storage[mis + p] = T::from64(1.0);
                        let wave = &storage[mis..mis + total];
                        let vals: Vec<T> = kernels.iter().map(|(_, k)| k.get_sinc_interpolated(wave, start, sub)).collect();
                        storage[mis + p] = T::from64(0.0);
                        acc.evals += 1;
                        let inside = p >= start && p < start + len;
                        if inside {
                            acc.nontrivial += 1;
                            if start == starts[0] && mis == misaligns[0] {
                                table[p - start] = vals[0].to64();
                            }
                        }
                        for (i, (name, _)) in kernels.iter().enumerate().skip(1) {
                            if !(vals[i] == vals[0]) {
                                fail(acc, &format!("impulse:{}!=scalar", name),
                                    format!("{} len {} os {} {}: unit impulse at {} (window starts at {}, subindex {}, slice offset {}): {} returns {:?}, scalar {:?}", T::NAME, len, os, window_name(window), p, start, sub, mis, name, vals[i], vals[0]),
                                    format!("impulse T={} len={} os={} window={}", T::NAME, len, os, window_name(window)));
                            }
                        }
                        if !inside {
                            for (i, (name, _)) in kernels.iter().enumerate() {
                                if !(vals[i].to64() == 0.0) {
                                    fail(acc, &format!("reads-outside-window:{}", name),
                                        format!("{} len {} os {}: a sample at {} outside [{}, {}) contributes {:?} in the {} kernel", T::NAME, len, os, p, start, start + len, vals[i], name),
                                        format!("impulse T={} len={} os={} window={}", T::NAME, len, os, window_name(window)));
                                }
                            }
                        }
                    }
                }
            }
            // the last legal start index: a slice that ends one sample after the window
            // (every kernel must accept exactly the indices the scalar one accepts)
            for &start in &starts {
                let total = start + len + 1;
                let wave: Vec<T> = (0..total).map(|i| T::from64(if i == start + len / 2 { 1.0 } else { 0.0 })).collect();
                let vals: Vec<Option<T>> = kernels
                    .iter()
                    .map(|(_, k)| std::panic::catch_unwind(std::panic::AssertUnwindSafe(|| k.get_sinc_interpolated(&wave, start, sub))).ok())
                    .collect();
                acc.evals += 1;
                acc.nontrivial += 1;
                for (i, (name, _)) in kernels.iter().enumerate().skip(1) {
                    let same = match (&vals[i], &vals[0]) {
                        (Some(a), Some(b)) => a == b,
                        (None, None) => true,
                        _ => false,
                    };
                    if !same {
                        fail(acc, &format!("last-legal-index:{}!=scalar", name),
                            format!("{} len {} os {} sub {}: start index {} in a slice of {} samples (the last index the scalar kernel accepts): {} {}, scalar {}", T::NAME, len, os, sub, start, total, name,
                                if vals[i].is_some() { "returns a value" } else { "panics" }, if vals[0].is_some() { "returns a value" } else { "panics" }),
                            format!("impulse T={} len={} os={} window={}", T::NAME, len, os, window_name(window)));
                    }
                }
            }
            // memory behaviour: the window placed so that it ends exactly at (or starts exactly
            // after) an inaccessible page - a kernel that touches anything outside
            // [index, index + len) of the slice it was given faults, whether or not the value
            // it loads is used
            if sub == subs[0] || sub == *subs.last().unwrap() {
                for back in 0..8usize {
                    for at_end in [true, false] {
                        let total = len + 1 + back;
                        let g = Guarded::<T>::new(total, at_end).ok_or("mmap failed")?;
                        for i in 0..total {
                            g.slice()[i] = T::from64(if i == back + len / 2 { 1.0 } else { 0.0 });
                        }
                        // at_end: the slice ends at the guard page, start index = the last legal
                        // one minus (7 - back)...; else: the slice starts right after a guard page
                        let start = if at_end { total - len - 1 } else { 0 };
                        if let Some(j) = journal {
                            j.write(&json!({"len": len, "os": os, "T": T::NAME}), &format!("guarded window sub {} start {} of {} ({})", sub, start, total, if at_end { "ends at an inaccessible page" } else { "starts after an inaccessible page" }));
                        }
                        let vals: Vec<T> = kernels.iter().map(|(_, k)| k.get_sinc_interpolated(g.slice(), start, sub)).collect();
                        acc.evals += 1;
                        acc.nontrivial += 1;
                        for (i, (name, _)) in kernels.iter().enumerate().skip(1) {
                            if !(vals[i] == vals[0]) {
                                fail(acc, &format!("impulse:{}!=scalar", name),
                                    format!("{} len {} os {} sub {}: guarded window, start {}: {} returns {:?}, scalar {:?}", T::NAME, len, os, sub, start, name, vals[i], vals[0]),
                                    format!("impulse T={} len={} os={} window={}", T::NAME, len, os, window_name(window)));
                            }
                        }
                    }
                }
            }
            acc.outcomes.insert(format!("{}:len{}:os{}", T::NAME, len, os));
            // rounding half: hard waveforms
            let total = 8 + len + 9;
            // (sums of up to 2048 such products stay finite: 2048 * 1e30 < f32::MAX)
            let big = if T::IS_F32 { 1e30 } else { 1e250 };
            let tiny = if T::IS_F32 { 1e-40 } else { 1e-310 };
            let waves: Vec<(&str, Box<dyn Fn(usize) -> f64>)> = vec![
                ("ones", Box::new(|_| 1.0)),
                ("alternating", Box::new(|i| if i % 2 == 0 { 1.0 } else { -1.0 })),
                ("ramp", Box::new(|i| i as f64)),
                ("huge-dynamic-range", Box::new(move |i| if i % 2 == 0 { big } else { 1.0 / big })),
                ("subnormal", Box::new(move |i| tiny * (1 + i % 3) as f64)),
                ("noise", Box::new(|i| (splitmix(i as u64) >> 44) as f64 / 524288.0 - 1.0)),
                // exact relations between samples a fixed distance apart (halves of a vector, the
                // two accumulators, neighbouring blocks): sums and differences that cancel exactly
                // although the samples are not zero - a value-dependent shortcut shows here
                ("antisymmetric-period-4", Box::new(|i| { let v = 0.25 + (splitmix((i % 2) as u64) >> 44) as f64 / 1048576.0; if i % 4 < 2 { v } else { -v } })),
                ("antisymmetric-period-8", Box::new(|i| { let v = 0.25 + (splitmix((i % 4) as u64) >> 44) as f64 / 1048576.0; if i % 8 < 4 { v } else { -v } })),
                ("antisymmetric-period-16", Box::new(|i| { let v = 0.25 + (splitmix((i % 8) as u64) >> 44) as f64 / 1048576.0; if i % 16 < 8 { v } else { -v } })),
                ("antisymmetric-period-32", Box::new(|i| { let v = 0.25 + (splitmix((i % 16) as u64) >> 44) as f64 / 1048576.0; if i % 32 < 16 { v } else { -v } })),
                ("periodic-8", Box::new(|i| 0.25 + (splitmix((i % 8) as u64) >> 44) as f64 / 1048576.0)),
                ("opposite-pair-4-apart-in-silence", Box::new(|i| if i == 13 { 0.75 } else if i == 17 { -0.75 } else { 0.0 })),
                ("opposite-pair-8-apart-in-silence", Box::new(|i| if i == 12 { 0.75 } else if i == 20 { -0.75 } else { 0.0 })),
                ("silence-then-noise", Box::new(|i| if i < 24 { 0.0 } else { (splitmix(i as u64) >> 44) as f64 / 524288.0 - 1.0 })),
                // one infinite sample in otherwise finite data: the sum is +-inf in any summation
                // order (the kernels must agree on the class and the sign, not turn it into NaN)
                ("one-infinite-sample", Box::new(|i| if i == 11 { f64::INFINITY } else { (splitmix(i as u64 ^ 77) >> 44) as f64 / 524288.0 - 1.0 })),
                ("one-negative-infinite-sample-late", Box::new(move |i| if i + 20 == total { f64::NEG_INFINITY } else { 0.25 })),
            ];
            for (wname, f) in &waves {
                let wave: Vec<T> = (0..total).map(|i| T::from64(f(i))).collect();
                for &start in &[0usize, 3, 8] {
                    let vals: Vec<f64> = kernels.iter().map(|(_, k)| k.get_sinc_interpolated(&wave, start, sub).to64()).collect();
                    let sum_abs: f64 = (0..len).map(|i| (wave[start + i].to64() * table[i]).abs()).sum();
                    // plus one smallest subnormal per term: products that underflow round differently with and without FMA
                    let bound = (len as f64 / 4.0 + 8.0) * eps * sum_abs + (len as f64 + 8.0) * if T::IS_F32 { 1.5e-45 } else { 5e-324 };
                    acc.evals += 1;
                    for (i, (name, _)) in kernels.iter().enumerate().skip(1) {
                        if !vals[0].is_finite() || !vals[i].is_finite() {
                            // non-finite results are compared by class: NaN with NaN, an infinity
                            // with the infinity of the same sign
                            let same = (vals[0].is_nan() && vals[i].is_nan()) || (vals[0] == vals[i]);
                            if !same {
                                fail(acc, &format!("non-finite:{}-vs-scalar", name),
                                    format!("{} len {} os {} sub {} waveform {} start {}: {} returns {:?}, scalar {:?}", T::NAME, len, os, sub, wname, start, name, vals[i], vals[0]),
                                    format!("impulse T={} len={} os={} window={}", T::NAME, len, os, window_name(window)));
                            }
                            continue;
                        }
                        let d = (vals[i] - vals[0]).abs();
                        if sum_abs > 0.0 {
                            acc.worst_ulps = acc.worst_ulps.max(d / (eps * sum_abs));
                        }
                        if !(d <= bound) {
                            fail(acc, &format!("rounding:{}-vs-scalar", name),
                                format!("{} len {} os {} sub {} waveform {} start {}: {} {:e} vs scalar {:e}, difference {:e} > bound {:e}", T::NAME, len, os, sub, wname, start, name, vals[i], vals[0], d, bound),
                                format!("impulse T={} len={} os={} window={}", T::NAME, len, os, window_name(window)));
                        }
                    }
                }
            }
        }
    }
    Ok(())
}

fn dispatch<T: Flt>(acc: &mut Acc) -> Result<(), String> {
    // the stream of a SincFixedIn whatever kernel was selected
    let x: Vec<f64> = (0..3000).map(|i| (splitmix(i as u64 ^ 0xabc) >> 44) as f64 / 524288.0 - 1.0).collect();
    let eps = if T::IS_F32 { f32::EPSILON as f64 } else { f64::EPSILON };
    for (l, os, interp, ratio, kind) in [
        (64usize, 16usize, Interp::Cubic, 1.2f64, Kind::SI),
        (128, 128, Interp::Linear, 0.7, Kind::SO),
        (256, 256, Interp::Nearest, 147.0 / 160.0, Kind::SI),
        (24, 4, Interp::Quadratic, 2.5, Kind::SO),
    ] {
        let mk = |k: Kernel| Cfg::sinc(kind, ratio, 1.0, 256, l, os, interp, k);
        let d = resample_all::<T>(&mk(Kernel::Dispatch), &x)?;
        let sc = resample_all::<T>(&mk(Kernel::Scalar), &x)?;
        let avx = resample_all::<T>(&mk(Kernel::Avx), &x)?;
        let sse = resample_all::<T>(&mk(Kernel::Sse), &x)?;
        acc.evals += 4;
        acc.nontrivial += 4;
        let point = format!("dispatch T={} L={} os={} {}", T::NAME, l, os, interp.name());
        if d.out.len() != sc.out.len() || d.calls != sc.calls {
            fail(acc, "dispatch-changes-frame-counts", format!("{}: dispatch-selected kernel gives {} frames, scalar {}", point, d.out.len(), sc.out.len()), point.clone());
            continue;
        }
        // L/4+8 ulps of the sum of |products| <= (L/4+8)*eps*L*peak ; x4 for the polynomial blending
        let bound = 4.0 * (l as f64 / 4.0 + 8.0) * eps * 2.0;
        for (name, s) in [("avx", &avx), ("sse", &sse), ("dispatch", &d)] {
            let worst = s.out.iter().zip(sc.out.iter()).map(|(a, b)| (a - b).abs()).fold(0.0, f64::max);
            if !(worst <= bound) {
                fail(acc, &format!("stream:{}-vs-scalar", name), format!("{}: max |{} - scalar| = {:e} > {:e}", point, name, worst, bound), point.clone());
            }
        }
        // avx+fma are present on this machine (the Avx kernel constructed): new() must have picked it
        let same_as_avx = d.out.iter().zip(avx.out.iter()).all(|(a, b)| a.to_bits() == b.to_bits());
        acc.outcomes.insert(format!("{}:dispatch:{}", T::NAME, if same_as_avx { "avx" } else { "other" }));
        if !same_as_avx {
            fail(acc, "dispatch-not-avx", format!("{}: avx and fma are detected but SincFixedIn::new does not produce the AVX kernel's stream", point), point.clone());
        }
    }
    Ok(())
}

impl Check for C15 {
    fn id(&self) -> &'static str {
        "C15"
    }
    fn level(&self) -> &'static str {
        "exploration"
    }
    fn engine(&self) -> &'static str {
        "E2 exhaustive lattice: unit-impulse basis x kernels, bit-exact comparison"
    }
    fn n_items(&self, tier: Tier) -> usize {
        items(tier).len()
    }
    fn run_item(&self, tier: Tier, idx: usize, journal: Option<&JournalFile>) -> Result<Value, String> {
        let item = items(tier).into_iter().nth(idx).ok_or("no item")?;
        // (so that an item that takes the process down while it builds its kernels is localised)
        if let Some(j) = journal {
            j.write(&json!({"item": idx}), "start of the item (kernels are being constructed)");
        }
        let mut acc = Acc { evals: 0, nontrivial: 0, found: vec![], outcomes: Default::default(), worst_ulps: 0.0 };
        let label;
        match item {
            Item::Impulse { len, f32t, window } => {
                label = format!("impulses len {} {} {}", len, if f32t { "f32" } else { "f64" }, window_name(window));
                if f32t {
                    impulses::<f32>(&mut acc, tier, len, window, journal)?
                } else {
                    impulses::<f64>(&mut acc, tier, len, window, journal)?
                }
            }
            Item::GuardPlain => {
                label = "guarded windows, unoptimised build".to_string();
                guard_plain(&mut acc)?;
            }
            Item::Dispatch { f32t } => {
                label = format!("dispatch {}", if f32t { "f32" } else { "f64" });
                if f32t {
                    dispatch::<f32>(&mut acc)?
                } else {
                    dispatch::<f64>(&mut acc)?
                }
            }
        }
        Ok(json!({
            "label": label, "evaluations": acc.evals, "nontrivial": acc.nontrivial,
            "outcomes": acc.outcomes.iter().collect::<Vec<_>>(), "found": acc.found,
            "samples": [{"item": label, "point": "unit impulse at every position index-8..index+len+8, every start index and slice offset of the tier, all three kernels; sixteen hard waveforms"}],
            "extra": {"worst_ulps": acc.worst_ulps},
        }))
    }
    fn finalize(&self, _tier: Tier, items: &[Value], cov: &mut Map<String, Value>) {
        let w = items.iter().map(|v| v["extra"]["worst_ulps"].as_f64().unwrap_or(0.0)).fold(0.0, f64::max);
        cov.insert("worst_simd_minus_scalar_in_eps_of_sum_abs_products".into(), json!(w));
        cov.insert("not_covered".into(), json!("NEON (cannot execute on x86-64)"));
    }
    fn replay(&self, replay: &Value) -> Result<(bool, String), String> {
        crate::frame::replay_by_item(self, replay)
    }
    fn rule(&self, tier: Tier) -> String {
        format!("full product of: T in {{f32,f64}} x sinc_len in {} x oversampling {{1,2,3,5,(7),128,256,(2048)}} x subindex (all for <=7; 10-25 representatives incl. both ends and powers of two for the large factors) x start index x slice offset x unit impulse at every position index-8..index+len+8, on scalar/SSE/AVX: bit-identical and exactly 0 outside the window; plus sixteen hard waveforms within (len/4+8) eps of the sum of |products|; all six windows at len 64; run-time dispatch vs explicit kernels on 4 resampler configurations. Non-trivial = impulse inside the window", if tier == Tier::Quick { "all 64 multiples of 8 up to 512 (reduced start/offset sets)" } else { "all 64 multiples of 8 up to 512" })
    }
    fn assumptions(&self) -> Vec<String> {
        vec![
            "a dot product with a unit impulse is exact in every summation order, so bit-equality on the impulse basis decides that all kernels hold the same table and read the same cells".into(),
            "NEON cannot be executed in this sandbox".into(),
        ]
    }
    fn vacuity(&self, _tier: Tier) -> (u64, u64) {
        (10000, 4)
    }
}
