//! C14: output_delay() reports the true alignment delay of the output stream.

use crate::cfg::{Cfg, Degree, Interp, Kernel, Kind};
use crate::e2::{resample_all_x, Opts};
use crate::frame::{Check, JournalFile, Tier};
use crate::run::Flt;
use serde_json::{json, Map, Value};

pub struct C14;

fn lattice(tier: Tier) -> Vec<(Cfg, Option<f64>, u8)> {
    let mut out = lattice_a(tier);
    out.extend(warm_reset_lattice().into_iter().map(|c| (c, None, 2u8)));
    // the new ratio requested twice on the fresh resampler: first with a ramp, then without
    // (the second request replaces the pending ramp: the stream runs at the new ratio throughout)
    for (r, m, x) in [(1.0, 2.0, 1.5), (1.0, 2.0, 0.6), (0.5, 4.0, 3.0)] {
        for chunk in [64usize, 1024] {
            for kind in [Kind::SI, Kind::SO] {
                let mut c = Cfg::sinc(kind, r, m, chunk, 64, 128, Interp::Cubic, Kernel::Dispatch);
                c.f_cutoff = 0.9;
                out.push((c, Some(x), 3u8));
            }
            for kind in [Kind::FI, Kind::FO] {
                out.push((Cfg::fast(kind, r, m, chunk, Degree::Cubic), Some(x), 3u8));
            }
        }
    }
    out
}

fn lattice_a(tier: Tier) -> Vec<(Cfg, Option<f64>, u8)> {
    let mut out: Vec<(Cfg, Option<f64>, u8)> = lattice_pre(tier).into_iter().map(|(c, p)| (c, p, 0u8)).collect();
    // one representative per type and direction, preceded by a call that is rejected (short input):
    // the stream that follows must be aligned exactly as if that call had never been made
    let mut rej: Vec<Cfg> = Vec::new();
    for r in [0.7, 2.5] {
        for kind in [Kind::SI, Kind::SO] {
            let mut c = Cfg::sinc(kind, r, 1.0, 64, 64, 128, Interp::Cubic, Kernel::Dispatch);
            c.f_cutoff = 0.9;
            rej.push(c);
        }
        for kind in [Kind::FI, Kind::FO] {
            rej.push(Cfg::fast(kind, r, 1.0, 64, Degree::Septic));
        }
    }
    for (a, b) in [(44100usize, 48000usize), (48000, 44100), (3, 2)] {
        for chunk in [64usize, 256] {
            rej.push(Cfg::fft(Kind::XI, a, b, chunk, 1));
            rej.push(Cfg::fft(Kind::XI, a, b, chunk, 2));
            rej.push(Cfg::fft(Kind::XO, a, b, chunk, 1));
            rej.push(Cfg::fft(Kind::XX, a, b, chunk, 1));
        }
    }
    out.extend(rej.iter().cloned().map(|c| (c, None, 1u8)));
    out
}

/// The same representatives, used after a warm-up of three loud chunks (with a changed chunk size
/// and a pending ramp where available) followed by reset(): mode 2 of an item.
fn warm_reset_lattice() -> Vec<Cfg> {
    let mut rej: Vec<Cfg> = Vec::new();
    for r in [0.7, 2.5] {
        for kind in [Kind::SI, Kind::SO] {
            let mut c = Cfg::sinc(kind, r, 2.0, 64, 64, 128, Interp::Cubic, Kernel::Dispatch).with_channels(2);
            c.f_cutoff = 0.9;
            rej.push(c);
        }
        for kind in [Kind::FI, Kind::FO] {
            rej.push(Cfg::fast(kind, r, 2.0, 64, Degree::Septic).with_channels(2));
        }
    }
    for (a, b) in [(44100usize, 48000usize), (48000, 44100), (3, 2)] {
        for chunk in [64usize, 256] {
            rej.push(Cfg::fft(Kind::XI, a, b, chunk, 1).with_channels(2));
            rej.push(Cfg::fft(Kind::XO, a, b, chunk, 1).with_channels(2));
            rej.push(Cfg::fft(Kind::XX, a, b, chunk, 1).with_channels(2));
        }
    }
    rej
}

fn lattice_pre(_tier: Tier) -> Vec<(Cfg, Option<f64>)> {
    let mut out: Vec<(Cfg, Option<f64>)> = base_lattice().into_iter().map(|c| (c, None)).collect();
    // ratio changed (no ramp) on the fresh resampler: the stream runs at ratio*x throughout and
    // output_delay() is read after the change
    for (r, m, x) in [(1.0, 4.0, 4.0), (1.0, 4.0, 0.25), (0.5, 2.0, 2.0), (2.0, 2.0, 0.5), (1.0, 16.0, 8.0), (147.0 / 160.0, 1.5, 1.25)] {
        for chunk in [64usize, 1000] {
            for kind in [Kind::SI, Kind::SO] {
                for l in [64usize, 256] {
                    let mut c = Cfg::sinc(kind, r, m, chunk, l, 128, Interp::Cubic, Kernel::Dispatch);
                    c.f_cutoff = 0.9;
                    out.push((c, Some(x)));
                }
            }
            for kind in [Kind::FI, Kind::FO] {
                for d in Degree::ALL {
                    out.push((Cfg::fast(kind, r, m, chunk, d), Some(x)));
                }
            }
        }
    }
    out
}

fn base_lattice() -> Vec<Cfg> {
    // both tiers use the full configuration lattice (seconds); thorough adds event positions and f32
    let q = false;
    let mut v = Vec::new();
    let ratios: Vec<f64> = if q { vec![0.25, 147.0 / 160.0, 2.5] } else { vec![1.0 / 16.0, 0.25, 0.7, 147.0 / 160.0, 1.0, 160.0 / 147.0, 2.5, 8.0, 16.0] };
    let chunks: Vec<usize> = if q { vec![64] } else { vec![64, 1000] };
    for &r in &ratios {
        for &chunk in &chunks {
            for kind in [Kind::SI, Kind::SO] {
                for l in if q { vec![64usize] } else { vec![64usize, 128, 256] } {
                    let mut c = Cfg::sinc(kind, r, 1.0, chunk, l, 128, Interp::Cubic, Kernel::Dispatch);
                    c.f_cutoff = 0.9;
                    v.push(c);
                }
            }
            for kind in [Kind::FI, Kind::FO] {
                for d in if q { vec![Degree::Septic, Degree::Linear] } else { Degree::ALL.to_vec() } {
                    v.push(Cfg::fast(kind, r, 1.0, chunk, d));
                }
            }
        }
    }
    // extreme decimation: the step between output frames is longer than the filter
    for (l, r) in [(8usize, 1.0 / 16.0), (8, 1.0 / 40.0), (64, 500.0 / 48000.0)] {
        for chunk in [64usize, 1024] {
            for kind in [Kind::SI, Kind::SO] {
                let mut c = Cfg::sinc(kind, r, 1.0, chunk, l, 128, Interp::Cubic, Kernel::Dispatch);
                c.f_cutoff = 0.9;
                v.push(c);
            }
        }
    }
    let pairs: Vec<(usize, usize)> = if q {
        vec![(44100, 48000), (3, 2), (48000, 8000)]
    } else {
        vec![(44100, 48000), (48000, 44100), (48000, 96000), (44100, 192000), (8000, 48000), (48000, 8000), (3, 2), (7, 5), (1, 1), (2, 3)]
    };
    for (a, b) in pairs {
        for chunk in if q { vec![256usize] } else { vec![64usize, 256, 1024] } {
            for sub in [1usize, 2] {
                v.push(Cfg::fft(Kind::XI, a, b, chunk, sub));
                v.push(Cfg::fft(Kind::XO, a, b, chunk, sub));
            }
            v.push(Cfg::fft(Kind::XX, a, b, chunk, 1));
        }
    }
    v
}

struct Acc {
    evals: u64,
    nontrivial: u64,
    found: Vec<Value>,
    outcomes: std::collections::BTreeSet<String>,
    worst: f64,
}

/// Centroid (of the squared signal) of a Gaussian pulse placed at input frame n0.
fn one<T: Flt>(acc: &mut Acc, cfg: &Cfg, pre: Option<f64>, mode: u8, n0: usize, journal: Option<&JournalFile>) -> Result<(), String> {
    let rejected_first = mode == 1;
    let r = cfg.nominal_ratio() * pre.unwrap_or(1.0);
    if let Some(j) = journal {
        j.write(&cfg.to_json(), &format!("pulse at {}", n0));
    }
    let sigma = 6.0 * (1.0f64).max(1.0 / r);
    let margin = (12.0 * sigma) as usize + 2 * cfg.filter_len() + 64;
    let block = if cfg.kind.is_fft() { 4 * crate::kf::fft_sizes(cfg).0.max(crate::kf::fft_sizes(cfg).1) } else { 0 };
    let n_in = n0 + margin + 3 * cfg.chunk.max(1) * (1.0f64.max(1.0 / r)) as usize + block + 2000;
    let x: Vec<f64> = (0..n_in).map(|n| (-0.5 * ((n as f64 - n0 as f64) / sigma).powi(2)).exp()).collect();
    let s = resample_all_x::<T>(cfg, &x, &Opts { pre, ramp_then_step: mode == 3, rejected_first, warmup: if mode == 2 { 3 } else { 0 }, ..Opts::default() })?;
    acc.evals += 1;
    if let Some((call, value)) = s.delay_changed {
        acc.outcomes.insert(format!("{}:delay-changes", cfg.kind.name()));
        if acc.found.iter().filter(|f| f["sig"] == "delay-changes-mid-stream").count() < 4 {
            acc.found.push(json!({"prop": "C14", "sig": "delay-changes-mid-stream", "detail": format!("output_delay() was {} before the stream and is {} after call {} although the ratio never changed", s.delay, value, call), "cfg": cfg.to_json(), "history": "", "point": format!("T={} pulse at input frame {}", T::NAME, n0)}));
        }
    }
    let (mut m0, mut m1) = (0.0f64, 0.0f64);
    for (k, y) in s.out.iter().enumerate() {
        m0 += y * y;
        m1 += y * y * k as f64;
    }
    let point = format!("T={} pulse at input frame {} (sigma {:.1}){}", T::NAME, n0, sigma, pre.map(|x| format!(", after set_resample_ratio_relative({}, false) on the fresh resampler", x)).unwrap_or_default() + if rejected_first { ", after one rejected call (short input)" } else if mode == 2 { ", after three loud warm-up chunks and reset()" } else if mode == 3 { " (requested with ramp, then again without)" } else { "" });
    if m0 < 1e-6 {
        acc.outcomes.insert(format!("{}:no-pulse", cfg.kind.name()));
        acc.found.push(json!({"prop": "C14", "sig": "pulse-missing", "detail": format!("the pulse does not appear in {} output frames", s.out.len()), "cfg": cfg.to_json(), "history": "", "point": point}));
        return Ok(());
    }
    acc.nontrivial += 1;
    let centroid = m1 / m0;
    let expect = n0 as f64 * r + s.delay as f64;
    let tol = r.max(1.0) + 1.0;
    let dev = centroid - expect;
    acc.worst = acc.worst.max(dev.abs() / tol);
    acc.outcomes.insert(format!("{}:{}", cfg.kind.name(), if dev.abs() <= tol { "aligned" } else { "MISALIGNED" }));
    if !(dev.abs() <= tol) && acc.found.iter().filter(|f| f["sig"] == "delay-misreported").count() < 8 {
        acc.found.push(json!({
            "prop": "C14", "sig": "delay-misreported",
            "detail": format!("event at input frame {} appears centred at output frame {:.2}; n*ratio + output_delay() = {:.2} (output_delay() = {}), off by {:.2} frames, tolerance {:.2}", n0, centroid, expect, s.delay, dev, tol),
            "cfg": cfg.to_json(), "history": "", "point": point,
        }));
    }
    Ok(())
}

/// The README recipe, literally: process full chunks, one partial chunk, flush with None until
/// new_length + delay frames exist, skip `delay`, keep `new_length`.
fn recipe(acc: &mut Acc, cfg: &Cfg, pre: Option<f64>) -> Result<(), String> {
    recipe_v(acc, cfg, pre, false, false)?;
    recipe_v(acc, cfg, pre, false, true)?;
    recipe_v(acc, cfg, pre, true, false)
}

/// `late_masked`: the event lies in the last, partial chunk of the clip, and the clip is channel 1
/// of a two-channel resampler whose channel 0 is masked out and supplied with empty slices.
/// `reused`: the resampler has already processed another clip (one call, for the sinc types
/// after set_chunk_size to a quarter) and was reset() before this one.
fn recipe_v(acc: &mut Acc, cfg: &Cfg, pre: Option<f64>, late_masked: bool, reused: bool) -> Result<(), String> {
    let r = cfg.nominal_ratio() * pre.unwrap_or(1.0);
    let len = 3000usize.max((40.0 / r) as usize);
    let sigma = 6.0 * (1.0f64).max(1.0 / r);
    let n0 = if late_masked { len - (5.0 * sigma) as usize - 2 } else { len / 2 };
    let clip: Vec<f64> = (0..len).map(|n| (-0.5 * ((n as f64 - n0 as f64) / sigma).powi(2)).exp()).collect();
    let mut cfg2 = cfg.clone();
    if late_masked {
        cfg2.channels = 2;
    }
    let what = if late_masked { "README recipe, event in the final partial chunk, channel 0 masked out and empty" } else { "README recipe" };
    let what = if reused { "README recipe on a resampler that was used before (smaller chunk size, one call) and reset()" } else { what };
    let mut rs = cfg2.build::<f64>()?;
    if reused {
        if cfg.kind.is_sinc() {
            rs.set_chunk_size((cfg.chunk / 4).max(1)).map_err(|e| e.to_string())?;
        }
        let need = rs.input_frames_next();
        let earlier: Vec<Vec<f64>> = (0..cfg2.channels).map(|_| vec![0.5; need]).collect();
        let mut ob = rs.output_buffer_allocate(true);
        rs.process_into_buffer(&earlier, &mut ob, None).map_err(|e| e.to_string())?;
        rs.reset();
    }
    if let Some(rel) = pre {
        rs.set_resample_ratio_relative(rel, false).map_err(|e| e.to_string())?;
    }
    let ch = cfg2.channels - 1;
    let mask_v = [false, true];
    let mask: Option<&[bool]> = if late_masked { Some(&mask_v) } else { None };
    let empty: [f64; 0] = [];
    let delay = rs.output_delay();
    let new_length = (len as f64 * r) as usize;
    let mut out: Vec<f64> = Vec::new();
    let mut pos = 0usize;
    let mut obuf = rs.output_buffer_allocate(true);
    loop {
        let need = rs.input_frames_next();
        if pos + need > len {
            break;
        }
        let (i, o) = if late_masked {
            rs.process_into_buffer(&[&empty[..], &clip[pos..pos + need]], &mut obuf, mask)
        } else {
            rs.process_into_buffer(&[&clip[pos..pos + need]], &mut obuf, mask)
        }
        .map_err(|e| e.to_string())?;
        out.extend_from_slice(&obuf[ch][..o]);
        pos += i;
    }
    if pos < len {
        let (_, o) = if late_masked {
            rs.process_partial_into_buffer(Some(&[&empty[..], &clip[pos..]]), &mut obuf, mask)
        } else {
            rs.process_partial_into_buffer(Some(&[&clip[pos..]]), &mut obuf, mask)
        }
        .map_err(|e| e.to_string())?;
        out.extend_from_slice(&obuf[ch][..o]);
    }
    let mut guard = 0;
    while out.len() < new_length + delay && guard < 10000 {
        let (_, o) = rs.process_partial_into_buffer(None::<&[Vec<f64>]>, &mut obuf, mask).map_err(|e| e.to_string())?;
        out.extend_from_slice(&obuf[ch][..o]);
        guard += 1;
    }
    acc.evals += 1;
    if out.len() < new_length + delay {
        acc.found.push(json!({"prop": "C14", "sig": "recipe-too-short", "detail": format!("flushing never produced new_length + delay = {} frames", new_length + delay), "cfg": cfg.to_json(), "history": "", "point": what}));
        return Ok(());
    }
    let kept = &out[delay..delay + new_length];
    let (mut m0, mut m1) = (0.0f64, 0.0f64);
    for (k, y) in kept.iter().enumerate() {
        m0 += y * y;
        m1 += y * y * k as f64;
    }
    let centroid = if m0 > 1e-6 { m1 / m0 } else { -1.0 };
    let expect = n0 as f64 * r;
    let tol = r.max(1.0) + 1.0;
    acc.nontrivial += 1;
    acc.outcomes.insert(format!("{}:recipe:{}", cfg.kind.name(), if (centroid - expect).abs() <= tol { "aligned" } else { "MISALIGNED" }));
    if !((centroid - expect).abs() <= tol) {
        acc.found.push(json!({
            "prop": "C14", "sig": "recipe-clip-shifted",
            "detail": format!("{} (skip output_delay() = {} frames, keep {}): the event of input frame {} is centred at kept frame {:.2}{}, expected {:.2} (tolerance {:.2})", what, delay, new_length, n0, centroid, if centroid < 0.0 { " (missing)" } else { "" }, expect, tol),
            "cfg": cfg.to_json(), "history": "", "point": what,
        }));
    }
    Ok(())
}

impl Check for C14 {
    fn id(&self) -> &'static str {
        "C14"
    }
    fn level(&self) -> &'static str {
        "exploration"
    }
    fn engine(&self) -> &'static str {
        "E2 exhaustive lattice: band-limited pulse positions x configurations, centroid against n*ratio + output_delay()"
    }
    fn n_items(&self, tier: Tier) -> usize {
        lattice(tier).len()
    }
    fn run_item(&self, tier: Tier, idx: usize, journal: Option<&JournalFile>) -> Result<Value, String> {
        let (cfg, pre, mode) = lattice(tier).into_iter().nth(idx).ok_or("no item")?;
        let rejected_first = mode != 0;
        let mut acc = Acc { evals: 0, nontrivial: 0, found: vec![], outcomes: Default::default(), worst: 0.0 };
        let scale = (1.0f64).max(1.0 / (cfg.nominal_ratio() * pre.unwrap_or(1.0))) as usize;
        let base = 300 * scale + 2 * cfg.filter_len();
        let mut positions = vec![base, base + 1, base + 700 * scale];
        if cfg.chunk > 1 {
            let b = ((base / cfg.chunk) + 2) * cfg.chunk;
            positions.extend([b - 1, b, b + 1]);
        }
        if scale >= 16 && cfg.kind.is_sinc() {
            // a late event: hundreds of calls into the stream
            positions.push(base + 4000 * scale);
        }
        if tier == Tier::Thorough {
            positions.extend([base + 2, base + 3, base + 5, base + 11, base + 137 * scale, base + 1501 * scale]);
        }
        for n0 in positions {
            one::<f64>(&mut acc, &cfg, pre, mode, n0, journal)?;
            if tier == Tier::Thorough {
                one::<f32>(&mut acc, &cfg, pre, mode, n0, journal)?;
            }
        }
        if !rejected_first {
            recipe(&mut acc, &cfg, pre)?;
        }
        Ok(json!({
            "label": format!("{}{}", cfg.short(), pre.map(|x| format!(" rel {}", x)).unwrap_or_default() + match mode { 1 => " after a rejected call", 2 => " after warm-up and reset", 3 => " ramp then step", _ => "" }), "evaluations": acc.evals, "nontrivial": acc.nontrivial,
            "outcomes": acc.outcomes.iter().collect::<Vec<_>>(), "found": acc.found,
            "samples": [{"cfg": cfg.short(), "events": "Gaussian pulses (sigma 6*max(1,1/ratio) input frames) at 6 positions incl. chunk boundary +-1; README recipe on one clip"}],
            "extra": {"worst": acc.worst},
        }))
    }
    fn finalize(&self, _tier: Tier, items: &[Value], cov: &mut Map<String, Value>) {
        let w = items.iter().map(|v| v["extra"]["worst"].as_f64().unwrap_or(0.0)).fold(0.0, f64::max);
        cov.insert("worst_misalignment_over_tolerance".into(), json!(w));
    }
    fn replay(&self, replay: &Value) -> Result<(bool, String), String> {
        crate::frame::replay_by_item(self, replay)
    }
    fn rule(&self, _tier: Tier) -> String {
        "full product of 7 types x ratio / rate pair x filter length / degree / requested FFT chunk (x sub_chunks) x chunk size x 6 event positions (incl. chunk boundary +-1): |centroid(out) - (n*ratio + output_delay())| <= max(1,ratio)+1, output_delay() read again after every call of the stream; plus the README recipe executed literally on one clip per configuration; asynchronous types also with the ratio changed (no ramp) on the fresh resampler, 6 (ratio, max, relative) triples; representatives of all seven types also after one rejected call (short input channel) on the fresh resampler, and two-channel representatives after three loud warm-up chunks (changed chunk size, pending ramp) followed by reset(). Non-trivial = pulse found in the output".into()
    }
    fn assumptions(&self) -> Vec<String> {
        vec!["the event is a Gaussian pulse wide enough to be band-limited for every configuration, so its energy centroid is preserved by an ideal resampler".into()]
    }
    fn vacuity(&self, _tier: Tier) -> (u64, u64) {
        (50, 3)
    }
}
