//! Walks on more channels (72) than a 64-entry table or a 64-bit channel set can hold. The engines
//! keep channel sets in 32-bit words, so this width is walked directly on the resamplers: every
//! type, a fixed operation sequence, five masks (among them one that switches off channels beyond
//! index 63 only), every channel compared.

use crate::cfg::{Cfg, Degree, Interp, Kernel, Kind};
use serde_json::{json, Value};

pub const NCH: usize = 72;

fn noise(ch: usize, n: usize, call: usize) -> Vec<f64> {
    let mut s = 0x9E3779B97F4A7C15u64 ^ ((ch as u64 + 1) << 32) ^ (call as u64 + 1);
    (0..n)
        .map(|_| {
            s = s.wrapping_mul(6364136223846793005).wrapping_add(1442695040888963407);
            ((s >> 11) as f64 / (1u64 << 53) as f64) - 0.5
        })
        .collect()
}

fn masks() -> Vec<(String, Option<Vec<bool>>)> {
    vec![
        ("none".to_string(), None),
        ("every third off".to_string(), Some((0..NCH).map(|c| c % 3 != 1).collect())),
        ("channels 66 and 70 off".to_string(), Some((0..NCH).map(|c| c != 66 && c != 70).collect())),
        ("only 65 and 71 on".to_string(), Some((0..NCH).map(|c| c == 65 || c == 71).collect())),
        ("only 2 on".to_string(), Some((0..NCH).map(|c| c == 2).collect())),
    ]
}

fn configs() -> Vec<Cfg> {
    vec![
        Cfg::sinc(Kind::SI, 48000.0 / 44100.0, 2.0, 16, 8, 2, Interp::Cubic, Kernel::Dispatch).with_channels(NCH),
        Cfg::sinc(Kind::SO, 0.8, 2.0, 16, 8, 2, Interp::Linear, Kernel::Dispatch).with_channels(NCH),
        Cfg::fast(Kind::FI, 0.8, 2.0, 16, Degree::Cubic).with_channels(NCH),
        Cfg::fast(Kind::FO, 1.3, 2.0, 16, Degree::Septic).with_channels(NCH),
        Cfg::fft(Kind::XI, 3, 2, 12, 2).with_channels(NCH),
        Cfg::fft(Kind::XO, 2, 3, 12, 2).with_channels(NCH),
        Cfg::fft(Kind::XX, 3, 2, 12, 1).with_channels(NCH),
    ]
}

const SENTINEL: f64 = 7.25e77;

/// C16: process() against process_into_buffer on twins, and process_partial(None) against an
/// all-zero chunk, under every mask of `masks()`, six calls each.
pub fn c16_item() -> Result<Value, String> {
    let mut found: Vec<Value> = Vec::new();
    let mut outcomes = std::collections::BTreeSet::new();
    let (mut states, mut transitions) = (0u64, 0u64);
    for cfg in configs() {
        for (mname, mask) in masks() {
            let mut a = cfg.build::<f64>()?;
            let mut b = cfg.build::<f64>()?;
            let m: Option<&[bool]> = mask.as_deref();
            let mut fail = |sig: &str, detail: String| {
                if found.len() < 40 {
                    found.push(json!({"prop": "C16", "sig": sig, "detail": format!("{} channels, mask '{}': {}", NCH, mname, detail), "cfg": cfg.to_json(), "history": "", "point": "wide"}));
                }
            };
            for call in 0..6usize {
                if call == 3 && cfg.kind.is_async() {
                    let _ = a.set_resample_ratio_relative(1.5, true);
                    let _ = b.set_resample_ratio_relative(1.5, true);
                }
                let partial = call == 5;
                let n_in = a.input_frames_next();
                let inp: Vec<Vec<f64>> = (0..NCH).map(|c| if partial { vec![0.0; n_in] } else { noise(c, n_in, call) }).collect();
                let mut out: Vec<Vec<f64>> = (0..NCH).map(|_| vec![SENTINEL; b.output_frames_max() + 4]).collect();
                let ra = if partial { a.process_partial::<Vec<f64>>(None, m) } else { a.process(&inp, m) };
                let rb = b.process_into_buffer(&inp, &mut out, m);
                transitions += 2;
                states += 1;
                match (ra, rb) {
                    (Ok(va), Ok((_, n_out))) => {
                        outcomes.insert(format!("{}:wide:{}:Ok", cfg.kind.name(), if partial { "flush" } else { "process" }));
                        if va.len() != NCH {
                            fail("wide:process-channel-count", format!("call {}: {} vectors returned", call, va.len()));
                            break;
                        }
                        for c in 0..NCH {
                            let active = m.map(|x| x[c]).unwrap_or(true);
                            if !active {
                                if !va[c].is_empty() {
                                    fail("wide:process-masked-channel-not-empty", format!("call {}: masked channel {} has {} frames", call, c, va[c].len()));
                                }
                                if out[c].iter().any(|x| *x != SENTINEL) {
                                    fail("wide:masked-channel-written", format!("call {}: process_into_buffer wrote to masked channel {}", call, c));
                                }
                            } else if va[c].len() != n_out {
                                fail("wide:process-length-differs", format!("call {}: channel {} has {} frames, process_into_buffer wrote {}", call, c, va[c].len(), n_out));
                            } else if va[c].iter().zip(out[c].iter()).any(|(x, y)| x.to_bits() != y.to_bits()) {
                                fail("wide:process-values-differ", format!("call {}: channel {} differs from what process_into_buffer wrote", call, c));
                            }
                        }
                    }
                    (Err(ea), Err(eb)) => {
                        outcomes.insert(format!("{}:wide:Err", cfg.kind.name()));
                        if format!("{:?}", ea) != format!("{:?}", eb) {
                            fail("wide:errors-differ", format!("call {}: {:?} vs {:?}", call, ea, eb));
                        }
                    }
                    (x, y) => {
                        fail("wide:ok-vs-err", format!("call {}: wrapper {:?}, core {:?}", call, x.map(|v| v.len()), y));
                        break;
                    }
                }
            }
        }
    }
    Ok(json!({
        "label": format!("{} channels", NCH), "states": states, "transitions": transitions, "evaluations": states,
        "outcomes": outcomes.iter().collect::<Vec<_>>(), "found": found,
        "samples": [{"wide": format!("{} channels x 7 types x 5 masks (none, every third off, only channels beyond 63 off, only two beyond 63 on, a single one on) x 6 calls (a ramp before the fourth, the last a flush): process()/process_partial(None) against process_into_buffer on a twin, every channel", NCH)}],
    }))
}

/// C08: channel c carries the line (n + c)/64 (Nearest: the staircase itself); every channel of a
/// polynomial resampler must return channel 0 shifted by c/64, under every mask, for every degree.
pub fn c08_item() -> Result<Value, String> {
    let mut found: Vec<Value> = Vec::new();
    let mut outcomes = std::collections::BTreeSet::new();
    let (mut evals, mut nontrivial) = (0u64, 0u64);
    for kind in [Kind::FI, Kind::FO] {
        for degree in Degree::ALL {
            for ratio in [0.8, 1.3] {
                let cfg = Cfg::fast(kind, ratio, 2.0, 16, degree).with_channels(NCH);
                for (mname, mask) in masks() {
                    let mut r = cfg.build::<f64>()?;
                    let m: Option<&[bool]> = mask.as_deref();
                    let mut pos = 0usize;
                    let mut bad: Option<String> = None;
                    let mut compared = 0u64;
                    for call in 0..8usize {
                        let n_in = r.input_frames_next();
                        let inp: Vec<Vec<f64>> = (0..NCH).map(|c| (0..n_in).map(|n| ((pos + n) as f64 + c as f64) / 64.0).collect()).collect();
                        pos += n_in;
                        let mut out: Vec<Vec<f64>> = (0..NCH).map(|_| vec![SENTINEL; r.output_frames_max()]).collect();
                        let (_, n_out) = r.process_into_buffer(&inp, &mut out, m).map_err(|e| format!("wide C08 walk: {:?}", e))?;
                        // the first call reads the zero pre-roll: lines only from the second call on
                        if call < 2 {
                            continue;
                        }
                        let base = (0..NCH).find(|c| m.map(|x| x[*c]).unwrap_or(true)).unwrap();
                        for c in 0..NCH {
                            if !m.map(|x| x[c]).unwrap_or(true) {
                                continue;
                            }
                            for k in 0..n_out {
                                let want = out[base][k] + (c as f64 - base as f64) / 64.0;
                                compared += 1;
                                if (out[c][k] - want).abs() > 1e-9 && bad.is_none() {
                                    bad = Some(format!("call {} frame {}: channel {} gives {:e}, channel {} + {}/64 = {:e}", call, k, c, out[c][k], base, c - base, want));
                                }
                            }
                        }
                    }
                    evals += 1;
                    if compared > 16 {
                        nontrivial += 1;
                    }
                    outcomes.insert(format!("{}:wide:{}:{}", kind.name(), degree.name(), if bad.is_none() { "ok" } else { "BAD" }));
                    if let Some(d) = bad {
                        if found.len() < 40 {
                            found.push(json!({"prop": "C08", "sig": "wide:channel-is-not-the-shifted-line", "detail": format!("{} channels, mask '{}': {}", NCH, mname, d), "cfg": cfg.to_json(), "history": "", "point": "wide"}));
                        }
                    }
                }
            }
        }
    }
    Ok(json!({
        "label": format!("{} channels", NCH), "evaluations": evals, "nontrivial": nontrivial,
        "outcomes": outcomes.iter().collect::<Vec<_>>(), "found": found,
        "samples": [{"item": format!("{} channels x {{FastFixedIn, FastFixedOut}} x 5 degrees x 2 ratios x 5 masks x 8 calls: channel c carries the line (n+c)/64 and must come out as the first active channel shifted by a constant", NCH)}],
        "extra": {"worst_exact": 0.0, "sharp_min": -1.0, "worst_tone": 0.0, "worst_saw_eps": 0.0, "worst_saw": 0.0},
    }))
}
