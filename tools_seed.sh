#!/bin/bash
# tools_seed.sh <seed-name> <worktree> <property> ["needs ..."]
#   1. confirms in the scratch worktree: repo suite passes with the change, demo fails with it, passes without
#   2. stores patch.diff + demo under /verif/seeded/<seed-name>/
#   3. applies the patch to a scratch clone of /repo (/tmp/sv/repo), runs every quick check from a
#      scratch copy of /verif (/tmp/sv/verif, HX_VERIF_ROOT) against it, records which report a
#      VIOLATION. /repo and /verif themselves are not touched by step 3.
#      (TIER=thorough IDS="C07 C05" tools_seed.sh ... restricts / deepens the checks run.)
set -u
NAME="$1"; WT="$2"; PROP="$3"; NEEDS="${4:-}"
TIER="${TIER:-quick}"
IDS="${IDS:-C01 C02 C03 C04 C05 C06 C07 C08 C09 C10 C11 C12 C13 C14 C15 C16 C17 C18}"
OUT=/verif/seeded/$NAME
SV=${SV:-/tmp/sv}
mkdir -p "$OUT" $SV
export CARGO_NET_OFFLINE=true
if [ -d "$WT/.git" ] || [ -f "$WT/.git" ]; then
  cd "$WT" || exit 2
  git diff -- src > "$OUT/patch.diff"
  [ -s "$OUT/patch.diff" ] || { echo "no src change in $WT"; exit 2; }
  DEMO=""
  if [ -f tests/seed_demo.rs ]; then cp tests/seed_demo.rs "$OUT/seed_demo.rs"; DEMO=1; fi
  SUITE=$(cargo test --offline --lib 2>&1 | grep -E "^test result" | head -1; cargo test --offline --doc 2>&1 | grep -E "^test result" | head -1)
  echo "suite with change: $SUITE"
  DEMO_WITH="n/a"; DEMO_WITHOUT="n/a"
  if [ -n "$DEMO" ]; then
    cargo test --offline --test seed_demo -- --test-threads=1 >$SV/seed_demo_with.log 2>&1; DEMO_WITH=$?
    git apply -R "$OUT/patch.diff"
    cargo test --offline --test seed_demo -- --test-threads=1 >$SV/seed_demo_without.log 2>&1; DEMO_WITHOUT=$?
    git apply "$OUT/patch.diff"
  fi
  echo "demo exit with change: $DEMO_WITH (expect non-zero), without: $DEMO_WITHOUT (expect 0)"
else
  SUITE="(see meta.json)"; DEMO_WITH="n/a"; DEMO_WITHOUT="n/a"
fi
# ---- scratch copies
if [ ! -d $SV/repo/.git ]; then git clone -q /repo $SV/repo; cp /repo/Cargo.lock $SV/repo/; fi
git -C $SV/repo fetch -q /repo HEAD && git -C $SV/repo checkout -q --detach FETCH_HEAD && git -C $SV/repo checkout -q -- .
mkdir -p $SV/verif && (cd $SV/verif && find . -mindepth 1 -maxdepth 1 ! -name hx -exec rm -rf {} + ; find hx -mindepth 1 -maxdepth 1 ! -name target -exec rm -rf {} + 2>/dev/null; true) && git -C /verif archive HEAD | tar -x -C $SV/verif
sed -i "s#path = \"/repo\"#path = \"$SV/repo\"#" $SV/verif/hx/Cargo.toml
git -C $SV/repo apply "$OUT/patch.diff" || { echo "patch does not apply"; exit 2; }
CAUGHT=""
cd $SV/verif
for id in $IDS; do
  HX_VERIF_ROOT=$SV/verif ./check $id --tier $TIER > $SV/seedrun_$id.log 2>&1; rc=$?
  if [ $rc -eq 1 ]; then CAUGHT="$CAUGHT $id"; grep -A1 '^VIOLATION' $SV/seedrun_$id.log | grep '^  #' | head -1 | cut -c1-260; fi
  if [ $rc -ge 2 ]; then CAUGHT="$CAUGHT $id(machinery:$rc)"; tail -3 $SV/seedrun_$id.log; fi
done
git -C $SV/repo checkout -q -- .
echo "caught by ($TIER):$CAUGHT"
python3 - "$NAME" "$PROP" "$NEEDS" "$SUITE" "$DEMO_WITH" "$DEMO_WITHOUT" "$CAUGHT" "$TIER" "$IDS" <<'PY'
import json,sys,os
name,prop,needs,suite,dw,dwo,caught,tier,ids=sys.argv[1:10]
p='/verif/seeded/%s/meta.json'%name
m=json.load(open(p)) if os.path.exists(p) else {}
m.update({"id":name,"property":prop})
if needs: m["needs_to_manifest"]=needs
if suite!="(see meta.json)":
    m["confirmed"]={"repo_suite_with_change":suite.replace("\n"," | "),"demo_exit_with_change":dw,"demo_exit_without_change":dwo,
      "commands":["cargo test --offline --lib; cargo test --offline --doc   (scratch worktree, change applied)","cargo test --offline --test seed_demo (with the change, then with the change reversed)","patch applied to a scratch clone of /repo; ./check <ID> --tier <tier> from a scratch copy of /verif; clone reset"]}
key="%s_checks_reporting_violation"%tier
if len(ids.split())==18: m[key]=caught.split()
else: m.setdefault(key+"_partial",{}).update({i:(i in caught.split()) for i in ids.split()})
json.dump(m,open(p,'w'),indent=1)
PY
