#!/usr/bin/env python3
"""Fill the SEEDED-TABLE and COST-TABLE blocks of DESIGN.md from /verif/seeded/*/meta.json and
/verif/evidence/*.json (markers: <!-- SEEDED-BEGIN --> ... <!-- SEEDED-END -->, same for COST)."""
import json, glob, os, re
rows=[]
for d in sorted(glob.glob('/verif/seeded/*/')):
    mp=d+'meta.json'
    if not os.path.exists(mp): continue
    m=json.load(open(mp))
    name=m.get('id',os.path.basename(d.rstrip('/')))
    what=(m.get('needs_to_manifest') or m.get('what') or '').replace('|','/').replace('\n',' ')
    q=m.get('quick_checks_reporting_violation')
    part=m.get('quick_checks_reporting_violation_partial',{})
    tq=m.get('thorough_checks_reporting_violation_partial',{})
    caught={c for c in (q or []) if 'machinery' not in c}
    caught |= {k for k,v in part.items() if v}
    note=''
    if q is not None and part:
        first={c for c in q if 'machinery' not in c}
        later={k for k,v in part.items() if v}-first
        if later: note=' (%s after strengthening)'%', '.join(sorted(later))
    th={k for k,v in tq.items() if v}-caught
    if th: note+=' (thorough only: %s)'%', '.join(sorted(th))
    own=m.get('property')
    rows.append((name,own,what,', '.join(sorted(caught)) or '**none**',note,'yes' if own in caught else ('thorough' if own in th else 'NO')))
tab=['| change | property | what it needs to manifest | quick checks reporting a VIOLATION | own check catches |','|---|---|---|---|---|']
for r in rows:
    tab.append('| %s | %s | %s | %s%s | %s |'%(r[0],r[1],r[2][:230],r[3],r[4],r[5]))
seeded='\n'.join(tab)
cost=['| check | level | tier of committed evidence | states | transitions | evaluations | distinct outcomes | caps hit | wall s |','|---|---|---|---|---|---|---|---|---|']
for f in sorted(glob.glob('/verif/evidence/C*.json')):
    e=json.load(open(f)); c=e['coverage']
    cost.append('| %s | %s | %s | %s | %s | %s | %s | %s | %s |'%(e['property_id'],e['level'],e['tier'],c.get('states','-'),c.get('transitions','-'),c.get('evaluations','-'),c.get('distinct_outcomes','-'),c.get('horizon_caps_hit',0),e['wall_s']))
cost='\n'.join(cost)
p='/verif/DESIGN.md'
s=open(p).read()
def put(s,tag,body):
    b='<!-- %s-BEGIN -->'%tag; e='<!-- %s-END -->'%tag
    if b in s:
        return re.sub(re.escape(b)+'.*?'+re.escape(e), lambda m: b+'\n'+body+'\n'+e, s, flags=re.S)
    return s.replace('%s-TABLE-PLACEHOLDER'%tag, b+'\n'+body+'\n'+e)
s=put(s,'SEEDED',seeded); s=put(s,'COST',cost)
open(p,'w').write(s)
print(len(rows),'seeded rows')
